"""C14: failures are reported only through the documented exceptions.

(1) every explicit `raise` names a documented class; (2) no exception object is built and dropped;
(3) every `assert` is triaged: a condition that depends (interprocedural def-use taint) on solver output,
sympy output or file content is input-dependent -> finding; an untainted one must be in the reviewed table;
(4) the file reader / validators check every key they later dereference.
"""
from __future__ import annotations

import ast
import json
import os
from typing import Any, Dict, List, Optional, Set, Tuple

from .cfg import CFG, ExcTable, exc_class_of
from .flow import Flow
from .loader import AnalysisError, FuncInfo, Program, norm
from .report import Ctx

HERE = os.path.dirname(os.path.abspath(__file__))
ASSERT_TABLE = os.path.join(HERE, "tables", "asserts.json")

DOCUMENTED_ROOTS = ["ValueError", "ParseBaseException", "FileDataFormatError"]
TAINT_SOURCES = {
    # numerical back ends: what they return is not determined by the shape of the arguments
    "solver": ("linprog", "sympy.solve", "HalfspaceIntersection"),
    # raw file content: stops being 'raw' once a domain object has been constructed from it
    "file": ("json.load", "json.loads"),
}


def documented(exc: ExcTable, cls: str) -> bool:
    return any(exc.is_sub(cls, r) for r in DOCUMENTED_ROOTS)


def rule_raise_classes(ctx: Ctx, rule: str = "raise-class") -> None:
    prog = ctx.prog
    exc = ExcTable(prog)
    n = 0
    for fi in prog.all_functions():
        for node in ast.walk(fi.node):
            if not isinstance(node, ast.Raise):
                continue
            n += 1
            cls = exc_class_of(node.exc)
            construct = "%s raises a documented exception class" % fi.key
            if node.exc is None or (isinstance(node.exc, ast.Name) and not exc.known(node.exc.id)):
                ctx.ok(rule, fi.key, construct + " (re-raise)", nontrivial=False)
                continue
            if cls is not None and documented(exc, cls) and not (cls in PYPARSING_ERRORS and fi.module.relpath.endswith("grammar.py")):
                ctx.ok(rule, fi.key, construct + ": " + cls, nontrivial=False)
                continue
            if cls == "AssertionError" and _unreachable_after_exhaustive_isinstance(prog, fi, node):
                ctx.ok(rule, fi.key, construct + ": AssertionError after an exhaustive isinstance chain (unreachable)")
                continue
            if cls in PYPARSING_ERRORS and fi.module.relpath.endswith("grammar.py"):
                # raised by a parse action: it travels up through parse_string; fine iff every parse_string call of the
                # package converts pyparsing's errors into a documented class
                bad_sites = _unwrapped_parse_calls(prog, exc)
                if not bad_sites:
                    ctx.ok(rule, fi.key, construct + ": %s in a parse action, converted to the syntax error by every caller of parse_string" % cls)
                else:
                    ctx.violation(rule, fi.key, "explicit raise of %s" % cls, "raised by a parse action, but %s calls parse_string without converting pyparsing errors" % bad_sites[0], where="%s:%d" % (fi.module.relpath, node.lineno))
                continue
            ctx.violation(rule, fi.key, "explicit raise of %s" % cls, "`%s` raises %s, which is not a documented error class" % (norm(node)[:90], cls), where="%s:%d" % (fi.module.relpath, node.lineno))
    ctx.floor("explicit raise statements", n, 60)


# pyparsing's own hierarchy (library fact): all derive from ParseBaseException
PYPARSING_ERRORS = {"ParseException", "ParseFatalException", "ParseSyntaxException", "ParseBaseException"}


def _unwrapped_parse_calls(prog: Program, exc: ExcTable) -> List[str]:
    """parse_string / parseString call sites that are not inside a try whose handler catches pyparsing's base error
    (or Exception) and raises a documented class."""
    out: List[str] = []
    for fi in prog.all_functions():
        if isinstance(fi.node, ast.Lambda):
            continue
        parents: Dict[ast.AST, ast.AST] = {}
        for nd in ast.walk(fi.node):
            for ch in ast.iter_child_nodes(nd):
                parents[ch] = nd
        for nd in ast.walk(fi.node):
            if not (isinstance(nd, ast.Call) and isinstance(nd.func, ast.Attribute) and nd.func.attr in ("parse_string", "parseString")):
                continue
            ok = False
            cur: ast.AST = nd
            while cur in parents and not ok:
                par = parents[cur]
                if isinstance(par, ast.Try) and any(cur is s_ for s_ in par.body):
                    for h in par.handlers:
                        names = [norm(t).split(".")[-1] for t in (h.type.elts if isinstance(h.type, ast.Tuple) else [h.type])] if h.type is not None else ["BaseException"]
                        if any(nm in ("ParseBaseException", "Exception", "BaseException") for nm in names):
                            raises = [x for x in ast.walk(h) if isinstance(x, ast.Raise) and x.exc is not None]
                            if raises and all((exc_class_of(r.exc) is not None and documented(exc, exc_class_of(r.exc))) for r in raises):
                                ok = True
                cur = par
            if not ok:
                out.append("%s (%s:%d)" % (fi.key, fi.module.relpath, nd.lineno))
    return out


def _unreachable_after_exhaustive_isinstance(prog: Program, fi: FuncInfo, node: ast.Raise) -> bool:
    """`if isinstance(e, A): return..; if isinstance(e, B): return..; raise AssertionError` with {A, B} = all concrete
    subclasses of the parameter's declared base class."""
    sem = _unreachable_by_paths(prog, fi, node)
    if sem is not None:
        return sem
    body = fi.body
    if not body or body[-1] is not node:
        return False
    tested: Set[str] = set()
    var = None
    for st in body[:-1]:
        if isinstance(st, ast.Expr) and isinstance(st.value, ast.Constant):
            continue
        if not (isinstance(st, ast.If) and isinstance(st.test, ast.Call) and norm(st.test.func) == "isinstance" and len(st.test.args) == 2):
            return False
        if not _always_leaves(st.body):
            return False
        v = norm(st.test.args[0])
        if var is not None and v != var:
            return False
        var = v
        t = st.test.args[1]
        for e in t.elts if isinstance(t, ast.Tuple) else [t]:
            tested.add(norm(e).split(".")[-1])
    if var is None:
        return False
    # declared type of the parameter
    ann = None
    for a in fi.node.args.args:
        if a.arg == var and a.annotation is not None:
            ann = norm(a.annotation).strip("'\"").split(".")[-1]
    if ann is None or ann not in prog.classes:
        return False
    subs = {c.name for c in prog.subclasses(ann)}
    return bool(subs) and subs <= tested


def _unreachable_by_paths(prog: Program, fi: FuncInfo, node: ast.Raise) -> Optional[bool]:
    """Path version of the test above: on every simulated path that ends in this raise, the isinstance tests that came
    out False name every concrete subclass of the declared class of the tested parameter (whatever the chain looks
    like: if/elif/else, early returns, a dispatch that binds a function first).  None when the paths cannot be had."""
    from .pathsim import Sim

    try:
        paths = list(Sim(prog, fi, loop_iters=(0, 1), max_paths=4000).paths())
    except AnalysisError:
        return None
    anns = {a.arg: norm(a.annotation).strip("'\"").split(".")[-1] for a in fi.node.args.args if a.annotation is not None}
    mine = [p for p in paths if p.terminal == "raise" and getattr(p, "raise_node", None) is node]
    if not mine:
        # the simulator does not record the node: fall back to the class and the line
        mine = [p for p in paths if p.terminal == "raise" and p.exc_cls == "AssertionError" and any(e["kind"] == "raise" and e.get("node") is node for e in p.events)]
    if not mine:
        return None
    for p in mine:
        failed: Dict[str, Set[str]] = {}
        for e in p.events:
            if e["kind"] != "branch":
                continue
            t, neg = e["test"], False
            while isinstance(t, tuple) and t and t[0] == "un" and t[1] == "Not":
                t, neg = t[2], not neg
            if isinstance(t, tuple) and t and t[0] == "call" and t[1] == "isinstance" and len(t[2]) == 2 and t[2][0][0] == "param":
                if (bool(e["taken"]) != neg) is False:
                    failed.setdefault(t[2][0][1], set()).update(_type_names(t[2][1]))
        ok_path = False
        for var, tested in failed.items():
            ann = anns.get(var)
            if ann in prog.classes:
                subs = {c.name for c in prog.subclasses(ann)}
                if subs and subs <= tested:
                    ok_path = True
        if not ok_path:
            return False
    return True


def _always_leaves(stmts: List[ast.stmt]) -> bool:
    if not stmts:
        return False
    last = stmts[-1]
    if isinstance(last, (ast.Return, ast.Raise)):
        return True
    if isinstance(last, ast.If):
        return _always_leaves(last.body) and _always_leaves(last.orelse)
    return False


def rule_constructed_not_raised(ctx: Ctx, rule: str = "constructed-not-raised") -> None:
    prog = ctx.prog
    exc = ExcTable(prog)
    n = 0

    def is_exc_call(e: ast.AST) -> Optional[str]:
        if isinstance(e, ast.Call):
            c = exc_class_of(e)
            if c and exc.known(c) and exc.is_sub(c, "BaseException"):
                return c
        return None

    for fi in prog.all_functions():
        for node in ast.walk(fi.node):
            if isinstance(node, ast.Expr):
                n += 1
                c = is_exc_call(node.value)
                if c:
                    ctx.violation(rule, fi.key, "exception object built and dropped: %s" % norm(node)[:70], "`%s` constructs %s without raising it" % (norm(node)[:100], c), where="%s:%d" % (fi.module.relpath, node.lineno))
    # positive control: the pattern must still match a known-bad snippet
    ctl = ast.parse("def f(d):\n    if 'k' not in d:\n        ValueError('missing')\n    return d['k']\n")
    hit = any(isinstance(x, ast.Expr) and is_exc_call(x.value) for x in ast.walk(ctl))
    if not hit:
        ctx.cannot_decide(rule, "-", "positive control", "the built-and-dropped pattern no longer matches its control example")
    else:
        ctx.ok(rule, "-", "positive control: `ValueError('missing')` as a statement is recognised", nontrivial=False)
    ctx.ok(rule, "-", "no exception object is built and dropped (%d expression statements scanned)" % n)


# ------------------------------------------------------------------ taint
class Taint:
    """Interprocedural def-use taint.  Sources: results of linprog / sympy.solve / json.load / HalfspaceIntersection.
    Per function: `intrinsic` (its return value carries source data whatever the arguments), `ret_deps` (parameters
    the return value derives from - used context-sensitively at call sites) and `param_taint` (parameters that
    receive source data at some call site - context-insensitive, which is what an assert inside the callee needs)."""

    def __init__(self, prog: Program, kind: str = "solver"):
        self.prog = prog
        self.kind = kind
        self.sources = TAINT_SOURCES[kind]
        self.funcs: List[FuncInfo] = [f for f in prog.all_functions() if not isinstance(f.node, ast.Lambda)]
        self.flow: Dict[str, Flow] = {f.key: Flow(f.node) for f in self.funcs}
        self.byname: Dict[str, List[FuncInfo]] = {}
        for f in self.funcs:
            self.byname.setdefault(f.name, []).append(f)
        self.intrinsic: Dict[str, Optional[str]] = {f.key: None for f in self.funcs}
        self.ret_deps: Dict[str, Set[str]] = {f.key: set() for f in self.funcs}
        self.param_taint: Dict[str, Set[str]] = {f.key: set() for f in self.funcs}
        self.reasons: Dict[Tuple[str, str], str] = {}
        self._solve()

    def callees(self, func: ast.AST) -> List[FuncInfo]:
        if isinstance(func, ast.Attribute):
            name = func.attr
        elif isinstance(func, ast.Name):
            name = func.id
        else:
            return []
        cands = self.byname.get(name, [])
        if name in self.prog.classes:
            init = self.prog.resolve_method(name, "__init__")
            return [init] if init is not None else []
        # ClassName.method(...) narrows to that class
        if isinstance(func, ast.Attribute) and isinstance(func.value, ast.Name) and func.value.id in self.prog.classes:
            r = self.prog.resolve_method(func.value.id, name)
            return [r] if r is not None else []
        return cands

    def _bind(self, node: ast.Call, c: FuncInfo) -> List[Tuple[str, ast.AST]]:
        params = c.params
        pairs: List[Tuple[str, ast.AST]] = []
        is_m = c.kind in ("method", "property", "classmethod")
        if c.name == "__init__" and not isinstance(node.func, ast.Attribute):
            pairs += list(zip(params[1:], node.args))
        elif is_m and not _called_unbound(node, c):
            if isinstance(node.func, ast.Attribute):
                pairs.append((params[0], node.func.value))
            pairs += list(zip(params[1:], node.args))
        else:
            pairs += list(zip(params, node.args))
        pairs += [(k.arg, k.value) for k in node.keywords if k.arg]
        return pairs

    def tainted(self, fkey: str, e: Optional[ast.AST], mode: str = "taint", seen: Optional[Set[str]] = None):
        """mode 'taint': returns a reason string or None.  mode 'deps': returns the set of own parameters e derives from."""
        seen = set() if seen is None else seen
        flow = self.flow[fkey]
        deps: Set[str] = set()
        reason: List[Optional[str]] = [None]

        def rec(x: Optional[ast.AST]) -> None:
            if x is None or reason[0]:
                return
            if isinstance(x, ast.Name):
                if x.id in flow.params:
                    deps.add(x.id)
                    if x.id in self.param_taint[fkey]:
                        reason[0] = "parameter %s (%s)" % (x.id, self.reasons.get((fkey, x.id), ""))
                        return
                if x.id in flow.defs and x.id not in seen:
                    seen.add(x.id)
                    for rhs in flow.defs[x.id]:
                        rec(rhs)
                return
            if isinstance(x, ast.Call):
                t = norm(x.func)
                if any(t.endswith(sfx) for sfx in self.sources):
                    reason[0] = "the result of %s" % t
                    return
                cands = self.callees(x.func)
                if self.kind == "file" and cands and (cands[0].name == "__init__" or cands[0].name in ("from_dict", "from_strings")):
                    return  # a constructed domain object is no longer raw file content
                if cands:
                    for c in cands:
                        if self.intrinsic[c.key]:
                            reason[0] = "%s (which returns %s)" % (c.key, self.intrinsic[c.key])
                            return
                        for p, a in self._bind(x, c):
                            if p in self.ret_deps[c.key] or c.name == "__init__":
                                rec(a)
                    return
                # external / unresolved call: data flows from receiver and arguments to the result
                if isinstance(x.func, ast.Attribute):
                    rec(x.func.value)
                for a in x.args:
                    rec(a)
                for k in x.keywords:
                    rec(k.value)
                return
            if isinstance(x, ast.Lambda):
                return
            for ch in ast.iter_child_nodes(x):
                rec(ch)

        rec(e)
        if mode == "deps":
            return deps, reason[0]
        return reason[0]

    def expr_tainted(self, fkey: str, e: ast.AST) -> Optional[str]:
        return self.tainted(fkey, e)

    def _solve(self) -> None:
        changed = True
        rounds = 0
        while changed and rounds < 30:
            changed = False
            rounds += 1
            for f in self.funcs:
                for node in ast.walk(f.node):
                    if isinstance(node, ast.Return) and node.value is not None:
                        deps, why = self.tainted(f.key, node.value, mode="deps")
                        # a return that is tainted only through a tainted parameter is not intrinsic
                        if why and not why.startswith("parameter ") and not self.intrinsic[f.key]:
                            self.intrinsic[f.key] = why
                            changed = True
                        if not deps <= self.ret_deps[f.key]:
                            self.ret_deps[f.key] |= deps
                            changed = True
                    if isinstance(node, ast.Call):
                        for c in self.callees(node.func):
                            if self.kind == "file" and not (c.module.base in ("fileio", "serializer") or c.name in ("from_dict", "from_strings")):
                                continue  # raw file content is handled only by the reader / validators / factories
                            for p, a in self._bind(node, c):
                                if p is None or p in self.param_taint[c.key]:
                                    continue
                                r = self.tainted(f.key, a)
                                if r:
                                    self.param_taint[c.key].add(p)
                                    self.reasons[(c.key, p)] = "from %s: %s" % (f.key, r[:120])
                                    changed = True


def _called_unbound(node: ast.Call, c: FuncInfo) -> bool:
    # ClassName.method(obj, ...) : first positional is self
    f = node.func
    return isinstance(f, ast.Attribute) and isinstance(f.value, ast.Name) and c.cls is not None and f.value.id == c.cls.name


def assert_key(fi: FuncInfo, node: ast.Assert) -> str:
    return "%s :: %s" % (fi.key, norm(node.test))


def _block_chain(fn: ast.AST, target: ast.AST) -> Optional[List[Tuple[List[ast.stmt], int]]]:
    """[(statement list, index of the statement that contains target)] from the function body inwards."""

    def rec(stmts: List[ast.stmt]) -> Optional[List[Tuple[List[ast.stmt], int]]]:
        for i, st in enumerate(stmts):
            if st is target:
                return [(stmts, i)]
            for fld in ("body", "orelse", "finalbody", "handlers"):
                sub = getattr(st, fld, None)
                if not isinstance(sub, list):
                    continue
                blocks = [h.body for h in sub] if fld == "handlers" else [sub]
                for b in blocks:
                    if b and isinstance(b[0], ast.stmt):
                        r = rec(b)
                        if r is not None:
                            return [(stmts, i)] + r
        return None

    return rec(getattr(fn, "body", []))


def _straight_line_return(fn: ast.AST) -> Optional[ast.Return]:
    """the single `return <expr>` of a helper whose body is assignments / asserts / docstrings / logging and that
    return at the end: such a helper can be read as an expression of its arguments"""
    body = list(getattr(fn, "body", []))
    if not body or not isinstance(body[-1], ast.Return) or body[-1].value is None:
        return None
    for st in body[:-1]:
        if isinstance(st, (ast.Assign, ast.AnnAssign, ast.Assert, ast.Pass)):
            continue
        if isinstance(st, ast.Expr) and (isinstance(st.value, ast.Constant) or (isinstance(st.value, ast.Call) and norm(st.value.func).startswith(("logging.", "logger.")))):
            continue
        return None
    return body[-1]


def _branch_returns(fn: ast.AST) -> List[ast.Return]:
    """the returns of a helper whose body is only `if` chains, asserts, docstrings and `return <expr>` statements"""
    out: List[ast.Return] = []

    def ok_block(stmts) -> bool:
        for st in stmts:
            if isinstance(st, ast.Return):
                if st.value is None:
                    return False
                out.append(st)
            elif isinstance(st, ast.If):
                if not ok_block(st.body) or not ok_block(st.orelse):
                    return False
            elif isinstance(st, (ast.Assert, ast.Pass)) or (isinstance(st, ast.Expr) and isinstance(st.value, ast.Constant)):
                continue
            else:
                return False
        return True

    return out if ok_block(list(getattr(fn, "body", []))) and 1 < len(out) <= 4 else []


def _expand_expr(fi: FuncInfo, anchor: ast.AST, expr: ast.AST, depth: int, prog: Optional[Program], placeholders: Dict[str, str]) -> ast.AST:
    """`expr`, as evaluated just before statement `anchor` of `fi`, with plain local names replaced by their
    straight-line reaching definitions; with a program at hand, a call of a helper extracted later is replaced by the
    helper's returned expression (a helper that is one expression of its arguments) or by a placeholder local (a helper
    with several returns: a value the function computes in some other way)."""
    import copy as _copy

    from .pathsim import is_new_helper

    chain = _block_chain(fi.node, anchor)
    if chain is None:
        return _copy.deepcopy(expr)

    def definition(name: str) -> Optional[ast.expr]:
        for stmts, idx in reversed(chain):
            for st in reversed(stmts[:idx]):
                if isinstance(st, ast.Assign) and len(st.targets) == 1:
                    t = st.targets[0]
                    if isinstance(t, ast.Name) and t.id == name:
                        return st.value
                    if isinstance(t, (ast.Tuple, ast.List)):
                        for k, el in enumerate(t.elts):
                            if isinstance(el, ast.Name) and el.id == name:
                                return ast.Subscript(value=st.value, slice=ast.Constant(value=k), ctx=ast.Load())
                elif isinstance(st, ast.AnnAssign) and isinstance(st.target, ast.Name) and st.target.id == name and st.value is not None:
                    return st.value
                # any other statement that may bind the name (loops, nested assignments, augmented assignment): stop
                if any(isinstance(n, ast.Name) and n.id == name and isinstance(n.ctx, (ast.Store, ast.Del)) for n in ast.walk(st)):
                    return None
        return None

    def helper_of(call: ast.Call) -> Optional[FuncInfo]:
        if prog is None:
            return None
        f = call.func
        g = None
        if isinstance(f, ast.Name):
            g = prog.resolve_name(fi.module, f.id)
        elif isinstance(f, ast.Attribute) and isinstance(f.value, ast.Name) and fi.cls is not None and (f.value.id in (fi.params[:1] or []) or f.value.id == fi.cls.name):
            g = prog.resolve_method(fi.cls.name, f.attr)
        if g is not None and g.__class__.__name__ == "FuncInfo" and is_new_helper(g.key) and not isinstance(g.node, ast.Lambda):
            return g
        return None

    class Sub(ast.NodeTransformer):
        def __init__(self, left: int) -> None:
            self.left = left

        def visit_Name(self, n: ast.Name) -> ast.AST:
            if isinstance(n.ctx, ast.Load) and self.left > 0 and n.id not in fi.params:
                d = definition(n.id)
                if d is not None:
                    return Sub(self.left - 1).visit(_copy.deepcopy(d))
                if prog is not None and not any(isinstance(x, ast.Name) and x.id == n.id and isinstance(x.ctx, ast.Store) for x in ast.walk(fi.node)):
                    # a constant table of the package (a module-level tuple / set of literals): its display
                    tab = prog.resolve_table2(fi.module, n.id)
                    if tab is not None and isinstance(tab[0], (ast.Tuple, ast.Set)) and all(isinstance(x, ast.Constant) for x in tab[0].elts):
                        return _copy.deepcopy(tab[0])
                    okc_, val_ = prog.resolve_constant(fi.module, n.id)
                    if okc_:
                        return ast.Constant(value=val_)  # a named text / integer constant of the package: its value
            return n

        def visit_Call(self, c: ast.Call) -> ast.AST:
            self.generic_visit(c)
            g = helper_of(c)
            if g is None or self.left <= 0:
                return c
            ret = _straight_line_return(g.node)
            if ret is None:
                # a helper that is a chain of `if ...: return A` ... `return B`: one reading per return (the caller of
                # this expansion tries them all; each has to be a reviewed form)
                rets = _branch_returns(g.node) if not placeholders.get("__single__") else []
                if rets:
                    trace = placeholders.setdefault("__trace__", [])  # type: ignore[arg-type]
                    prefix = placeholders.get("__prefix__", [])  # type: ignore[assignment]
                    k_ = len(trace)
                    pick = prefix[k_] if k_ < len(prefix) else 0
                    trace.append(len(rets))  # type: ignore[union-attr]
                    ret = rets[min(pick, len(rets) - 1)]
            params = list(g.params)
            if g.kind in ("method", "classmethod") and isinstance(c.func, ast.Attribute):
                params = params[1:]
            if ret is not None and not any(isinstance(a_, ast.Starred) for a_ in c.args) and all(k.arg for k in c.keywords):
                bound = dict(zip(params, c.args))
                bound.update({k.arg: k.value for k in c.keywords})
                inner = _expand_expr(g, ret, ret.value, self.left - 1, prog, placeholders)

                class Args(ast.NodeTransformer):
                    def visit_Name(self, n_: ast.Name) -> ast.AST:
                        return _copy.deepcopy(bound[n_.id]) if isinstance(n_.ctx, ast.Load) and n_.id in bound else n_

                if all(p_ in bound for p_ in params if any(isinstance(x, ast.Name) and x.id == p_ for x in ast.walk(inner))):
                    return Args().visit(inner)
            # several returns / statements: a value computed in some other way - a local without a single definition
            ph = placeholders.setdefault(norm(c), "_H%d" % (len(placeholders) + 1))
            return ast.Name(id=ph, ctx=ast.Load())

        def visit_IfExp(self, n: ast.IfExp) -> ast.AST:
            self.generic_visit(n)
            # a parameter with a default applied (`p if isinstance(p, T) else D`, `D if p is None else p`) is still
            # that parameter - the reviewed form reads `if p is None: p = D` the same way
            for keep, other in ((n.body, n.orelse), (n.orelse, n.body)):
                if isinstance(keep, ast.Name) and keep.id in fi.params and not any(isinstance(x, ast.Name) and x.id == keep.id for x in ast.walk(other)) and any(isinstance(x, ast.Name) and x.id == keep.id for x in ast.walk(n.test)):
                    return keep
            return n

        def visit_Attribute(self, n: ast.Attribute) -> ast.AST:
            self.generic_visit(n)
            if prog is not None and isinstance(n.value, ast.Call) and isinstance(n.value.func, ast.Name) and n.value.func.id in prog.classes:
                # a field of a record built on the spot: the argument given for it
                ci = prog.classes[n.value.func.id]
                names = [f_ for f_, _d in ci.fields]
                if n.attr in names and prog.resolve_method(ci.name, "__init__") is None and not any(isinstance(a_, ast.Starred) for a_ in n.value.args):
                    for k in n.value.keywords:
                        if k.arg == n.attr:
                            return k.value
                    i = names.index(n.attr)
                    if i < len(n.value.args):
                        return n.value.args[i]
            if isinstance(n.value, ast.Name) and n.value.id.startswith("_H") and n.value.id in [v_ for k_, v_ in placeholders.items() if not k_.startswith("__")]:
                ph = placeholders.setdefault(norm(n), "_H%d" % (len(placeholders) + 1))
                return ast.Name(id=ph, ctx=ast.Load())
            return n

        def visit_Subscript(self, n: ast.Subscript) -> ast.AST:
            self.generic_visit(n)
            if isinstance(n.slice, ast.Constant) and isinstance(n.slice.value, int) and not isinstance(n.slice.value, bool):
                i_ = n.slice.value
                if isinstance(n.value, ast.Tuple) and 0 <= i_ < len(n.value.elts):
                    return n.value.elts[i_]  # item of a tuple display
                if prog is not None and isinstance(n.value, ast.Call) and isinstance(n.value.func, ast.Name) and n.value.func.id in prog.classes and not any(isinstance(a_, ast.Starred) for a_ in n.value.args):
                    ci = prog.classes[n.value.func.id]
                    names = [f_ for f_, _d in ci.fields]
                    if 0 <= i_ < len(names) and prog.resolve_method(ci.name, "__init__") is None:
                        for k in n.value.keywords:
                            if k.arg == names[i_]:
                                return k.value
                        if i_ < len(n.value.args):
                            return n.value.args[i_]  # item of a record built on the spot
            if isinstance(n.value, ast.Name) and n.value.id in [v_ for k_, v_ in placeholders.items() if not k_.startswith("__")] and isinstance(n.slice, ast.Constant):
                ph = placeholders.setdefault(norm(n), "_H%d" % (len(placeholders) + 1))
                return ast.Name(id=ph, ctx=ast.Load())
            return n

    return ast.fix_missing_locations(Sub(depth).visit(_copy.deepcopy(expr)))


def _finish_expanded(fi: FuncInfo, tree: ast.AST, placeholders: Dict[str, str]) -> str:
    # what is still a local name (several definitions, loop variables) is replaced by a placeholder numbered by
    # first appearance: the identity of an assert does not depend on how its locals are called
    import builtins as _bi

    stored = {n.id for n in ast.walk(fi.node) if isinstance(n, ast.Name) and isinstance(n.ctx, (ast.Store, ast.Del))}
    text = norm(tree)
    ph = {v_ for k_, v_ in placeholders.items() if not k_.startswith("__")}
    locals_left = {n.id for n in ast.walk(tree) if isinstance(n, ast.Name) and ((n.id in stored and n.id not in fi.params and not hasattr(_bi, n.id)) or n.id in ph)}
    order: Dict[str, str] = {}
    for name in sorted(locals_left, key=lambda nm: (text.find(nm), nm)):
        order[name] = "_L%d" % (len(order) + 1)
    for n in ast.walk(tree):
        if isinstance(n, ast.Name) and n.id in order:
            n.id = order[n.id]
    # x[len(x) - k] and x[-k] are the same item: one spelling
    for n in ast.walk(tree):
        if isinstance(n, ast.Subscript):
            sl = n.slice
            if isinstance(sl, ast.BinOp) and isinstance(sl.op, ast.Sub) and isinstance(sl.right, ast.Constant) and isinstance(sl.right.value, int) and isinstance(sl.left, ast.Call) and isinstance(sl.left.func, ast.Name) and sl.left.func.id == "len" and len(sl.left.args) == 1 and norm(sl.left.args[0]) == norm(n.value) and sl.right.value > 0:
                n.slice = ast.Constant(value=-sl.right.value)
            elif isinstance(sl, ast.UnaryOp) and isinstance(sl.op, ast.USub) and isinstance(sl.operand, ast.Constant) and isinstance(sl.operand.value, int):
                n.slice = ast.Constant(value=-sl.operand.value)
    # `a == b` and `b == a` (and the operands of `and` / `or`) are the same condition: one spelling
    for n in ast.walk(tree):
        if isinstance(n, ast.Compare) and len(n.ops) == 1 and isinstance(n.ops[0], (ast.Eq, ast.NotEq)):
            l_, r_ = n.left, n.comparators[0]
            if not isinstance(r_, ast.Constant) and norm(l_) > norm(r_):
                n.left, n.comparators = r_, [l_]
        # `x in {"=", "=="}` / `("==", "=")` / `["=", "=="]` / `frozenset({..})`: membership in a set of literals,
        # however the set is written and in whatever order
        if isinstance(n, ast.Compare) and len(n.ops) == 1 and isinstance(n.ops[0], (ast.In, ast.NotIn)):
            c_ = n.comparators[0]
            if isinstance(c_, ast.Call) and isinstance(c_.func, ast.Name) and c_.func.id in ("frozenset", "set", "tuple", "list") and len(c_.args) == 1 and not c_.keywords:
                c_ = c_.args[0]
            if isinstance(c_, (ast.Set, ast.Tuple, ast.List)) and c_.elts and all(isinstance(x, ast.Constant) for x in c_.elts):
                items = sorted({repr(x.value) for x in c_.elts})
                n.comparators = [ast.Tuple(elts=[ast.Constant(value=ast.literal_eval(t_)) for t_ in items], ctx=ast.Load())]
    return norm(ast.fix_missing_locations(tree))


def expanded_test(fi: FuncInfo, node: ast.Assert, depth: int = 6, prog: Optional[Program] = None) -> str:
    """The asserted condition with plain local names replaced by their (straight-line) reaching definitions, so that
    renaming a local or introducing an intermediate name does not change the identity of a reviewed assert."""
    if _block_chain(fi.node, node) is None:
        return norm(node.test)
    placeholders: Dict[str, str] = {"__single__": "1"}  # a helper with several returns is read as one unknown value
    tree = _expand_expr(fi, node, node.test, depth, prog, placeholders)
    placeholders.pop("__single__", None)
    return _finish_expanded(fi, tree, placeholders)


def expanded_alternatives(fi: FuncInfo, node: ast.Assert, prog: Program, depth: int = 6) -> List[str]:
    """The asserted condition under every reading of the multi-return helpers it goes through (at most 16 readings);
    a reading that is trivially true (`isinstance('+', str)`) is left out."""
    if _block_chain(fi.node, node) is None:
        return [norm(node.test)]
    out: List[str] = []
    stack: List[List[int]] = [[]]
    seen = 0
    while stack and seen < 16:
        prefix = stack.pop()
        seen += 1
        placeholders: Dict[str, str] = {"__prefix__": prefix, "__trace__": []}  # type: ignore[dict-item]
        tree = _expand_expr(fi, node, node.test, depth, prog, placeholders)
        trace = placeholders.pop("__trace__")  # type: ignore[assignment]
        placeholders.pop("__prefix__", None)
        for i in range(len(prefix), len(trace)):
            for alt in range(1, trace[i]):  # type: ignore[index]
                stack.append(list(prefix) + [0] * (i - len(prefix)) + [alt])
        t = tree
        trivial = isinstance(t, ast.Call) and isinstance(t.func, ast.Name) and t.func.id == "isinstance" and len(t.args) == 2 and isinstance(t.args[0], ast.Constant) and isinstance(t.args[0].value, str) and norm(t.args[1]) == "str"
        if not trivial:
            text = _finish_expanded(fi, tree, placeholders)
            if text not in out:
                out.append(text)
    return out


def expanded_at_call_sites(prog: Program, fi: FuncInfo, node: ast.Assert, depth: int = 6, level: int = 0) -> Optional[List[Tuple[str, str]]]:
    """For an assert inside a helper extracted later: the asserted condition as each caller states it - the helper's
    parameters replaced by the arguments of the call, those expanded in the caller.  [(caller key, expanded text)];
    None when a call site cannot be followed (starred arguments, the helper passed around as a value)."""
    import copy as _copy

    from .pathsim import is_new_helper

    if level > 2:
        return None
    placeholders: Dict[str, str] = {"__single__": "1"}
    inner = _expand_expr(fi, node, node.test, depth, prog, placeholders)
    out: List[Tuple[str, str]] = []
    for g in prog.all_functions():
        if isinstance(g.node, ast.Lambda) or g is fi:
            continue
        for c in ast.walk(g.node):
            if not isinstance(c, ast.Call):
                continue
            f = c.func
            tgt = None
            skip = 0
            if isinstance(f, ast.Name):
                tgt = prog.resolve_name(g.module, f.id)
            elif isinstance(f, ast.Attribute) and isinstance(f.value, ast.Name) and g.cls is not None and fi.cls is not None and (f.value.id in (g.params[:1] or []) or f.value.id == fi.cls.name):
                tgt = prog.resolve_method(g.cls.name, f.attr)
                skip = 1 if fi.kind in ("method", "classmethod") else 0
            elif isinstance(f, ast.Attribute) and isinstance(f.value, ast.Name):
                # through a module object:  helpers.f(...)
                m_ = prog.resolve_name(g.module, f.value.id)
                if m_ is not None and m_.__class__.__name__ == "ModInfo":
                    tgt = prog.resolve_dotted(m_.name + "." + f.attr)
            if tgt is not fi:
                continue
            if any(isinstance(a_, ast.Starred) for a_ in c.args) or any(k.arg is None for k in c.keywords):
                return None
            params = list(fi.params)[skip:]
            bound = dict(zip(params, c.args))
            bound.update({k.arg: k.value for k in c.keywords})
            stmt = None
            for st in ast.walk(g.node):
                if isinstance(st, ast.stmt) and not isinstance(st, (ast.FunctionDef, ast.If, ast.For, ast.While, ast.Try, ast.With)) and any(x is c for x in ast.walk(st)):
                    stmt = st
            if stmt is None:
                for st in ast.walk(g.node):
                    if isinstance(st, ast.stmt) and st is not g.node and any(x is c for x in ast.walk(getattr(st, "test", None) or getattr(st, "iter", None) or ast.Pass())):
                        stmt = st
            if stmt is None:
                return None
            ph2: Dict[str, str] = dict(placeholders)

            class Args(ast.NodeTransformer):
                def visit_Name(self, n_: ast.Name) -> ast.AST:
                    if isinstance(n_.ctx, ast.Load) and n_.id in bound:
                        return _expand_expr(g, stmt, bound[n_.id], depth, prog, ph2)
                    return n_

            tree = Args().visit(_copy.deepcopy(inner))
            if is_new_helper(g.key):
                # the caller is itself a later helper: one more level up (its own parameters are arguments there)
                fake = ast.Assert(test=tree, msg=None)
                ast.copy_location(fake, stmt)
                ast.fix_missing_locations(fake)
                # evaluate the condition in the caller at the call statement: splice the assert in front of it
                chain = _block_chain(g.node, stmt)
                if chain is None:
                    return None
                stmts, idx = chain[-1]
                stmts.insert(idx, fake)
                try:
                    up = expanded_at_call_sites(prog, g, fake, depth, level + 1)
                finally:
                    stmts.remove(fake)
                if up is None:
                    return None
                out.extend(up)
            else:
                out.append((g.key, _finish_expanded(g, ast.fix_missing_locations(tree), ph2)))
    return out


def load_assert_table() -> Dict[str, dict]:
    if not os.path.exists(ASSERT_TABLE):
        return {}
    with open(ASSERT_TABLE) as fh:
        return json.load(fh)["asserts"]


DECLINE_TABLE = os.path.join(HERE, "tables", "declines.json")
_FLIP = {ast.Eq: ast.NotEq, ast.NotEq: ast.Eq, ast.Lt: ast.GtE, ast.GtE: ast.Lt, ast.Gt: ast.LtE, ast.LtE: ast.Gt, ast.In: ast.NotIn, ast.NotIn: ast.In, ast.Is: ast.IsNot, ast.IsNot: ast.Is}


def canon(t: ast.AST) -> str:
    return norm(t).replace(" ", "")


def canon_neg(t: ast.AST) -> str:
    if isinstance(t, ast.UnaryOp) and isinstance(t.op, ast.Not):
        return canon(t.operand)
    if isinstance(t, ast.Compare) and len(t.ops) == 1 and type(t.ops[0]) in _FLIP:
        n = ast.Compare(left=t.left, ops=[_FLIP[type(t.ops[0])]()], comparators=t.comparators)
        return canon(n)
    return canon(ast.UnaryOp(op=ast.Not(), operand=t))


def decline_sites(prog: Program) -> Dict[str, List[str]]:
    """Reference for 'a documented error was replaced by an assert': every `if C: raise <documented>` per function."""
    exc = ExcTable(prog)
    out: Dict[str, List[str]] = {}
    for fi in prog.all_functions():
        if isinstance(fi.node, ast.Lambda):
            continue
        for node in ast.walk(fi.node):
            if isinstance(node, ast.If) and node.body and isinstance(node.body[0], ast.Raise):
                cls = exc_class_of(node.body[0].exc)
                if cls and documented(exc, cls):
                    out.setdefault(fi.key, []).append(canon(node.test))
    return out


def load_declines() -> Dict[str, List[str]]:
    if not os.path.exists(DECLINE_TABLE):
        return {}
    with open(DECLINE_TABLE) as fh:
        return json.load(fh)["declines"]


def rule_asserts(ctx: Ctx, rule: str = "assert-on-input") -> None:
    prog = ctx.prog
    taint = Taint(prog, "solver")
    ftaint = Taint(prog, "file")
    table = load_assert_table()
    n = 0
    cats: Dict[str, int] = {}
    for fi in taint.funcs:
        for node in ast.walk(fi.node):
            if not isinstance(node, ast.Assert):
                continue
            n += 1
            key = assert_key(fi, node)
            why = taint.expr_tainted(fi.key, node.test) or ftaint.expr_tainted(fi.key, node.test)
            if why:
                cats["input-dependent"] = cats.get("input-dependent", 0) + 1
                ctx.violation(
                    rule,
                    fi.key,
                    "assert %s" % norm(node.test),
                    "the asserted condition depends on %s; a well-formed input can make it false and AssertionError (undocumented) escapes" % why,
                    where="%s:%d" % (fi.module.relpath, node.lineno),
                )
                continue
            ent = table.get(key)
            if ent is None:
                # the same condition over renamed / re-introduced locals keeps its review
                exp = expanded_test(fi, node)
                for k2, e2 in table.items():
                    if k2.startswith(fi.key + " :: ") and (e2.get("expanded") == exp or exp in e2.get("expanded_forms", [])):
                        ent = e2
                        break
            if ent is None:
                from .pathsim import is_new_helper

                if is_new_helper(fi.key):
                    # an assert that moved into a helper extracted later keeps its review (same module, same test)
                    t_ = norm(node.test)
                    for k2, e2 in table.items():
                        fkey2, _, test2 = k2.partition(" :: ")
                        f2 = prog.funcs.get(fkey2)
                        if test2 == t_ and (f2 is None or f2.module.base == fi.module.base):
                            ent = e2
                            break
            if ent is None:
                # through helpers extracted later: the same condition with the helper calls read as expressions
                alts = expanded_alternatives(fi, node, prog)
                hits2 = []
                for exp2 in alts:
                    hit2 = None
                    for k2, e2 in table.items():
                        if k2.startswith(fi.key + " :: ") and (e2.get("expanded") == exp2 or exp2 in e2.get("expanded_forms", [])):
                            hit2 = e2
                            break
                    hits2.append(hit2)
                if alts and all(h_ is not None for h_ in hits2):
                    ent = hits2[0]
                elif alts:
                    # or the reviewed form speaks of "a value computed some other way" where the helper is called
                    exp3 = expanded_test(fi, node, prog=prog)
                    for k2, e2 in table.items():
                        if k2.startswith(fi.key + " :: ") and (e2.get("expanded") == exp3 or exp3 in e2.get("expanded_forms", [])):
                            ent = e2
                            break
                elif not alts:
                    # every reading is trivially true
                    ctx.ok(rule, fi.key, "assert %s (trivially true under every reading of the helpers it goes through)" % norm(node.test), nontrivial=False)
                    continue
            if ent is None:
                from .pathsim import is_new_helper as _inh

                if _inh(fi.key):
                    # an assert on the parameters of a later helper: the condition every caller states through it
                    sites = expanded_at_call_sites(prog, fi, node)
                    if sites:
                        hits = []
                        for caller, text in sites:
                            hit = None
                            for k2, e2 in table.items():
                                if k2.startswith(caller + " :: ") and (e2.get("expanded") == text or text in e2.get("expanded_forms", [])):
                                    hit = e2
                                    break
                            hits.append(hit)
                        if all(h is not None for h in hits):
                            ent = hits[0]
            if ent is None:
                ref = load_declines().get(fi.key, [])
                now = set(decline_sites(prog).get(fi.key, []))
                neg = canon_neg(node.test)
                if neg in ref and neg not in now:
                    ctx.violation(
                        "assert-replaces-error",
                        fi.key,
                        "assert %s" % norm(node.test),
                        "the documented-error check `if %s: raise ...` confirmed on the reference tree is gone and this assert stands in its place: "
                        "the same condition now escapes as AssertionError (undocumented; not absorbed by handlers of ValueError)" % neg,
                        where="%s:%d" % (fi.module.relpath, node.lineno),
                    )
                    continue
                ctx.cannot_decide(rule, fi.key, "assert %s" % norm(node.test), "assert not in the reviewed table (pv/tables/asserts.json): cannot tell whether it is an invariant")
                continue
            cats[ent["class"]] = cats.get(ent["class"], 0) + 1
            ctx.ok(rule, fi.key, "assert %s [%s]" % (norm(node.test)[:70], ent["class"]), ent.get("reason"), nontrivial=ent["class"] == "invariant")
    ctx.extra["asserts"] = {"total": n, "by_class": cats, "solver_tainted_params": {k: sorted(v) for k, v in taint.param_taint.items() if v}, "file_tainted_params": {k: sorted(v) for k, v in ftaint.param_taint.items() if v}}
    ctx.floor("assert statements triaged", n, 55)


# -------------------------------------------------- dereference coverage
def reader_dispatch(prog: Program, tag: str):
    """Paths of the file reader on a well-formed document (a list holding one dictionary that has every key it is
    asked for) whose entry's type field equals `tag`: [(terminal, exception class, [callee names in order])].
    The dispatch is read from the simulation, so an if/elif chain, early returns, a table of (tag, loader) pairs or
    extracted helpers all give the same answer."""
    from .pathsim import Sim, const, is_const

    fi = prog.func("fileio.read_contracts_from_file")

    def assume(v):
        if not isinstance(v, tuple) or not v:
            return None
        if v[0] == "cmp" and v[1] in ("Eq", "NotEq"):
            for a, b in ((v[2], v[3]), (v[3], v[2])):
                if is_const(b) and isinstance(b[1], str) and isinstance(a, tuple) and a and a[0] == "sub" and a[2] == const("type"):
                    return const((b[1] == tag) == (v[1] == "Eq"))
        if v[0] == "cmp" and v[1] in ("In", "NotIn") and ((is_const(v[2]) and isinstance(v[2][1], str)) or (isinstance(v[3], tuple) and v[3] and v[3][0] in ("iter", "param", "item"))):
            return const(v[1] == "In")  # the entry has every key it is asked for
        if v[0] in ("listcomp", "genexp", "setcomp") and any(assume(c) == const(False) for _it, conds in v[2] for c in conds):
            return const(False)  # "the keys that are missing": none
        if v[0] == "call" and (v[1] == "isinstance" or str(v[1]).endswith("isfile")):
            return const(True)
        if v[0] == "call" and v[1] == "next" and len(v[2]) == 2 and isinstance(v[2][0], tuple) and v[2][0] and (v[2][0] == const(False) or assume(v[2][0]) == const(False)):
            return v[2][1]  # next(<the keys that are missing>, default): there is none, so the default
        return None

    out = []
    for p in Sim(prog, fi, assume=assume, loop_iters=(1,)).paths():
        out.append((p.terminal, getattr(p, "exc_cls", None), [e["callee"] for e in p.events if e["kind"] == "call"], [e for e in p.events if e["kind"] == "call"]))
    return out


def reader_key_discipline(prog: Program):
    """Simulate the file reader on a document of the right shape (isinstance tests pass) with one entry, every other
    test left open.  -> (reads, absent):
    reads[k] = {"n": number of reads of <entry>[k] seen, "unchecked": number not preceded by a passed presence test},
    absent[k] = set of outcomes (exception class, or None for 'no raise') of the paths on which k was found missing."""
    from .pathsim import Sim, const, is_const, walk

    fi = prog.func("fileio.read_contracts_from_file")

    def assume(v):
        if isinstance(v, tuple) and v and v[0] == "call" and (v[1] == "isinstance" or str(v[1]).endswith("isfile")):
            return const(True)
        return None

    reads: Dict[str, Dict[str, int]] = {}
    absent: Dict[str, Set[Optional[str]]] = {}
    for p in Sim(prog, fi, assume=assume, loop_iters=(1,)).paths():
        present: Set[str] = set()
        missing: Optional[str] = None
        for e in p.events:
            if e["kind"] == "branch":
                t = e["test"]
                neg = False
                while isinstance(t, tuple) and t[0] == "un" and t[1] == "Not":
                    t, neg = t[2], not neg
                if isinstance(t, tuple) and t[0] == "cmp" and t[1] in ("In", "NotIn") and is_const(t[2]) and isinstance(t[2][1], str):
                    there = (t[1] == "In") == (bool(e["taken"]) != neg)
                    if there:
                        present.add(t[2][1])
                    elif missing is None:
                        missing = t[2][1]
                else:
                    # "some key of the table is missing": [k for k in KEYS if k not in entry] / any(k not in entry ...)
                    keys = _missing_keys_test(t)
                    if keys:
                        some_missing = bool(e["taken"]) != neg
                        if some_missing:
                            missing = missing or keys[0]
                        else:
                            present.update(keys)
            vals = [e.get(f) for f in ("test", "args", "kws", "recv", "value", "target", "f")]
            for v in vals:
                for x in walk(v):
                    if isinstance(x, tuple) and len(x) == 3 and x[0] == "sub" and is_const(x[2]) and isinstance(x[2][1], str) and isinstance(x[1], tuple) and x[1] and x[1][0] in ("iter", "param", "item"):
                        k = x[2][1]
                        r = reads.setdefault(k, {"n": 0, "unchecked": 0})
                        r["n"] += 1
                        if k not in present:
                            r["unchecked"] += 1
        if missing is not None:
            absent.setdefault(missing, set()).add(getattr(p, "exc_cls", None) if p.terminal != "return" else None)
    return reads, absent


def _missing_keys_test(t) -> List[str]:
    """The keys whose absence makes the value truthy: a comprehension over a tuple of key names filtered by
    `k not in X`, or a disjunction of such tests (what any(...) unrolls to)."""
    from .pathsim import is_const

    if isinstance(t, tuple) and t and t[0] == "cmp" and t[1] == "IsNot" and is_const(t[3]) and t[3][1] is None:
        # next((k for k in KEYS if k not in X), None) is not None : "some key is missing"
        l = t[2]
        if isinstance(l, tuple) and l and l[0] == "call" and l[1] == "next" and len(l[2]) == 2 and is_const(l[2][1]) and l[2][1][1] is None:
            return _missing_keys_test(l[2][0])
        return []
    if isinstance(t, tuple) and t and t[0] in ("listcomp", "genexp", "setcomp") and len(t[2]) == 1:
        it, conds = t[2][0]
        if isinstance(it, tuple) and it and it[0] == "tuple" and all(is_const(x) and isinstance(x[1], str) for x in it[1]):
            if len(conds) == 1 and isinstance(conds[0], tuple) and conds[0][0] == "cmp" and conds[0][1] == "NotIn":
                return [x[1] for x in it[1]]
    if isinstance(t, tuple) and t and t[0] == "boolop" and t[1] == "Or":
        ks = []
        for c in t[2]:
            if isinstance(c, tuple) and c[0] == "cmp" and c[1] == "NotIn" and is_const(c[2]) and isinstance(c[2][1], str):
                ks.append(c[2][1])
            else:
                return []
        return ks
    return []


def written_entries(prog: Program) -> List[Dict[str, Any]]:
    """The entries write_contracts_to_file appends to its document, one per returning path of a one-contract run:
    {key: value} gathered from the dictionary display handed to .append and from the stores entry[key] = value."""
    from .pathsim import Sim, is_const, walk

    w = prog.func("fileio.write_contracts_to_file")
    out: List[Dict[str, Any]] = []
    for p in Sim(prog, w, loop_iters=(1,)).paths():
        if p.terminal != "return":
            continue
        items: Dict[str, Any] = {}
        for e in p.events:
            if e["kind"] == "store" and isinstance(e["target"], tuple) and e["target"][0] == "sub" and is_const(e["target"][2]) and isinstance(e["target"][2][1], str):
                items[e["target"][2][1]] = e["value"]
            if e["kind"] == "call" and e["callee"] == ".append":
                for a in e["args"]:
                    for x in walk(a):
                        if isinstance(x, tuple) and x and x[0] == "dict":
                            for k, v in x[1]:
                                if k is not None and is_const(k) and isinstance(k[1], str):
                                    items[k[1]] = v
            if e["kind"] == "call" and not items:
                # the document built as a comprehension whose element is the entry (a dictionary display)
                for a in list(e["args"]) + [v for _k, v in e["kws"]]:
                    for x in walk(a):
                        if isinstance(x, tuple) and x and x[0] in ("listcomp", "genexp") and isinstance(x[1], tuple) and x[1] and x[1][0] == "dict":
                            for k, v in x[1][1]:
                                if k is not None and is_const(k) and isinstance(k[1], str):
                                    items[k[1]] = v
        if items:
            out.append(items)
    return out


def written_tags(prog: Program) -> Dict[str, str]:
    """type tag -> writer method: from the simulated writer (entries it appends), else read off the syntax
    (entry["type"] = TAG ; entry["data"] = c.<writer>())."""
    from .pathsim import is_const

    try:
        sem: Dict[str, str] = {}
        for it in written_entries(prog):
            t, d = it.get("type"), it.get("data")
            if t is not None and is_const(t) and isinstance(t[1], str) and isinstance(d, tuple) and d and d[0] == "mcall":
                if t[1] in sem and sem[t[1]] != d[1]:
                    # one tag for two representations: whatever the reader does with it is wrong for one of them
                    sem[t[1]] = "|".join(sorted(set(sem[t[1]].split("|")) | {d[1]}))
                else:
                    sem[t[1]] = d[1]
        if sem:
            return sem
    except AnalysisError:
        pass
    w = prog.func("fileio.write_contracts_to_file")
    written: Dict[str, str] = {}

    def collect(stmts: List[ast.stmt], tag: Optional[str]) -> None:
        cur = tag
        for st in stmts:
            if isinstance(st, ast.Assign) and isinstance(st.targets[0], ast.Subscript) and isinstance(st.targets[0].slice, ast.Constant):
                k = st.targets[0].slice.value
                if k == "type" and isinstance(st.value, ast.Constant):
                    cur = st.value.value
                if k == "data" and cur is not None and isinstance(st.value, ast.Call) and isinstance(st.value.func, ast.Attribute):
                    written[cur] = st.value.func.attr
            for f in ("body", "orelse"):
                if hasattr(st, f) and isinstance(getattr(st, f), list):
                    collect(getattr(st, f), cur)

    collect(w.body, None)
    return written


def rule_reader_validates(ctx: Ctx, rule: str = "reader-validates") -> None:
    """The file reader checks the shape of the JSON document and of every entry before dereferencing it, with a
    documented error; every representation it dispatches on is validated before construction."""
    prog = ctx.prog
    exc = ExcTable(prog)
    fi = prog.func("fileio.read_contracts_from_file")
    cfg = CFG(fi.node, exc)
    # 1. every read entry["k"] comes after a passed presence test `"k" in entry` whose failing side raises a documented
    #    error (read from the simulation: the test may sit in a loop over a tuple of keys, a table, or a helper)
    try:
        reads, absent = reader_key_discipline(prog)
    except AnalysisError as ex:
        ctx.cannot_decide(rule, fi.key, "read_contracts_from_file: entry keys are checked before they are read", str(ex))
        reads, absent = {}, {}
    seen = 0
    for k in sorted(reads):
        seen += reads[k]["n"]
        construct = "read_contracts_from_file: entry[%r] is checked before it is read" % k
        bad_out = sorted(c for c in absent.get(k, set()) if c is None or not documented(exc, c))
        if reads[k]["unchecked"]:
            ctx.violation(rule, fi.key, construct, "entry[%r] is dereferenced without a preceding `%r in entry` check that raises a documented error (KeyError escapes for a malformed file)" % (k, k), where=fi.where)
        elif bad_out:
            ctx.violation(rule, fi.key, construct, "a missing %r is answered by %s, not by a documented error" % (k, ["no raise" if c is None else c for c in bad_out]), where=fi.where)
        else:
            ctx.ok(rule, fi.key, construct, nontrivial=False)
    ctx.floor("entry dereferences in the file reader", seen, 3)
    # 2. every dispatched representation is validated before construction (read from the simulated dispatch)
    tags = sorted(written_tags(prog))
    if not tags:
        ctx.cannot_decide(rule, fi.key, "read_contracts_from_file: dispatched representations", "the writer's type tags could not be read")
    for tag in tags:
        construct = "read_contracts_from_file: entries of type %s are validated before construction" % tag
        try:
            paths = reader_dispatch(prog, tag)
        except AnalysisError as ex:
            ctx.cannot_decide(rule, fi.key, construct, str(ex))
            continue
        bad = None
        built = False
        for _t, _c, names, _evs in paths:
            pos = [i for i, c in enumerate(names) if c.endswith(".from_dict") or c.endswith(".from_strings")]
            for i in pos:
                built = True
                if not any(c.endswith("validate_contract_dict") for c in names[:i]):
                    bad = names[i]
        if bad is not None:
            ctx.violation(rule, fi.key, construct, "%s is called on unvalidated file data (a missing or ill-typed field escapes as TypeError/KeyError)" % bad.lstrip("."), where=fi.where)
        elif built:
            ctx.ok(rule, fi.key, construct)


def _membership_keys(t: ast.AST) -> List[str]:
    out = []
    for x in ast.walk(t):
        if isinstance(x, ast.Compare) and len(x.ops) == 1 and isinstance(x.ops[0], (ast.In, ast.NotIn)) and isinstance(x.left, ast.Constant) and isinstance(x.left.value, str):
            out.append(x.left.value)
    return out


def _key_checked(fi: FuncInfo, key: str) -> bool:
    return _key_checked_in(fi.node, key)


def _key_checked_in(fn_node: ast.AST, key: str) -> bool:
    """Is there, before the dispatch loop, an `if <key> not in entry: raise Documented` (directly or via a loop over a
    tuple of keys)?  Asserts do not count (AssertionError is not documented and vanishes under -O)."""

    class _F:
        node = fn_node

    fi = _F()
    for node in ast.walk(fi.node):
        if isinstance(node, ast.If) and _always_leaves(node.body) and isinstance(node.body[-1], ast.Raise):
            cls = exc_class_of(node.body[-1].exc)
            t = node.test
            if isinstance(t, ast.Compare) and len(t.ops) == 1 and isinstance(t.ops[0], ast.NotIn):
                l = t.left
                if isinstance(l, ast.Constant) and l.value == key:
                    return True
                if isinstance(l, ast.Name):
                    # for kw in ("type", "name", "data"): if kw not in entry: raise ...
                    for outer in ast.walk(fi.node):
                        if isinstance(outer, ast.For) and isinstance(outer.target, ast.Name) and outer.target.id == l.id and isinstance(outer.iter, (ast.Tuple, ast.List)):
                            if any(isinstance(e, ast.Constant) and e.value == key for e in outer.iter.elts) and any(n is node for n in ast.walk(outer)):
                                return True
    return False


def with_new_helpers(prog: Program, fi: FuncInfo) -> List[ast.AST]:
    """The function's AST plus the ASTs of helpers it (transitively) calls that do not exist on the reference tree."""
    from .pathsim import is_new_helper

    out = [fi.node]
    seen = {fi.key}
    work = [fi]
    while work:
        f = work.pop()
        for node in ast.walk(f.node):
            if isinstance(node, ast.Call):
                nm = node.func.attr if isinstance(node.func, ast.Attribute) else node.func.id if isinstance(node.func, ast.Name) else None
                if nm is None:
                    continue
                for k, g in prog.funcs.items():
                    if g.name == nm and k not in seen and is_new_helper(k):
                        seen.add(k)
                        out.append(g.node)
                        work.append(g)
    return out


def rule_validator_covers(ctx: Ctx, rule: str = "validator-covers") -> None:
    """Every key that from_dict dereferences on a machine dictionary is required by validate_contract_dict /
    _check_clause (presence) with ContractFormatError; validators raise only ContractFormatError."""
    prog = ctx.prog
    fd = prog.func("PolyhedralIoContract.from_dict")
    val = prog.func("serializer.validate_contract_dict")
    chk = prog.func("serializer._check_clause")
    if _validator_covers_semantic(ctx, rule, prog, fd, val):
        return
    used_top: Set[str] = set()
    used_clause: Set[str] = set()
    p0 = fd.params[0]
    for root in with_new_helpers(prog, fd):
        for node in ast.walk(root):
            if isinstance(node, ast.Subscript) and isinstance(node.slice, ast.Constant) and isinstance(node.slice.value, str):
                if root is fd.node and isinstance(node.value, ast.Name) and node.value.id == p0:
                    used_top.add(node.slice.value)
                elif isinstance(node.value, ast.Name):
                    used_clause.add(node.slice.value)
    req_top = _required_keys(val, prog)
    req_clause = _required_keys(chk, prog)
    for k in sorted(used_top):
        construct = "validate_contract_dict requires top-level key %r that from_dict reads" % k
        (ctx.ok(rule, val.key, construct) if k in req_top else ctx.violation(rule, val.key, construct, "key %r is read by from_dict but not required by the validator" % k, where=val.where))
    for k in sorted(used_clause):
        construct = "_check_clause requires clause key %r that from_dict reads" % k
        (ctx.ok(rule, chk.key, construct) if k in req_clause else ctx.violation(rule, chk.key, construct, "key %r is read by from_dict but its absence is not rejected" % k, where=chk.where))
    ctx.floor("keys read by from_dict", len(used_top) + len(used_clause), 6)
    # the validator reaches _check_clause for machine clauses
    calls = [norm(c.func) for c in ast.walk(val.node) if isinstance(c, ast.Call)]
    construct = "validate_contract_dict checks each machine clause with _check_clause"
    (ctx.ok(rule, val.key, construct) if any(c.endswith("_check_clause") for c in calls) else ctx.violation(rule, val.key, construct, "no call of _check_clause", where=val.where))


def _validator_covers_semantic(ctx: Ctx, rule: str, prog: Program, fd: FuncInfo, val: FuncInfo) -> bool:
    """The same obligation put to the interpreter: for every key of a valid machine dictionary (top level and inside a
    clause), if from_dict fails without it, the validator refuses a dictionary without it.  True when decided."""
    from .termalg import NONE, DictV, ListV, Raised, TermAlg, num

    S = lambda s: ("str", s)  # noqa: E731

    def clause():
        return DictV({S("constant"): num(1), S("coefficients"): DictV({S("x"): num(2)})})

    def contract():
        return DictV({S("input_vars"): ListV([S("x")]), S("output_vars"): ListV([S("y")]), S("assumptions"): ListV([clause()]), S("guarantees"): ListV([clause()])})

    init = prog.resolve_method("PolyhedralIoContract", "__init__")
    stubs = {init.key: (lambda ta, pos, kw: NONE)} if init is not None else {}

    def reader_fails(d) -> Optional[bool]:
        try:
            TermAlg(prog, stubs=stubs).call(fd, [d])
            return False
        except Raised:
            return True
        except Exception:
            return None

    def validator_refuses(d) -> Optional[bool]:
        try:
            TermAlg(prog).call(val, [d, S("c"), True])
            return False
        except Raised:
            return True
        except Exception:
            return None

    if reader_fails(contract()) is not False or validator_refuses(contract()) is not False:
        return False  # the valid dictionary itself is not followed: let the reading of the syntax decide
    cases = []
    for k in list(contract().d):
        d = contract()
        del d.d[k]
        cases.append(("top-level key %r" % k[1], d))
    for fld in ("assumptions", "guarantees"):
        for k in list(clause().d):
            d = contract()
            del d.d[S(fld)].items[0].d[k]
            cases.append(("clause key %r (in %s)" % (k[1], fld), d))
    verdicts = []
    for label, d in cases:
        rf, vr = reader_fails(d), validator_refuses(d)
        if rf is None or vr is None:
            return False
        verdicts.append((label, rf, vr))
    n = 0
    for label, rf, vr in verdicts:
        construct = "a dictionary without %s that from_dict cannot read is refused by the validator" % label
        if rf:
            n += 1
            (ctx.ok(rule, val.key, construct) if vr else ctx.violation(rule, val.key, construct, "from_dict fails on such a dictionary and validate_contract_dict accepts it", where=val.where))
        else:
            ctx.ok(rule, val.key, "from_dict does not need %s" % label, nontrivial=False)
    ctx.floor("keys from_dict cannot do without", n, 6)
    return True


def _helper_requires_param(prog: Program, name: str, argpos: int, kwname: Optional[str]) -> bool:
    """A private helper that did not exist on the reference tree has `if <param> not in X: raise` for the parameter
    that receives the key."""
    from .pathsim import is_new_helper

    for k, g in prog.funcs.items():
        if g.name != name or not is_new_helper(k) or isinstance(g.node, ast.Lambda):
            continue
        params = list(g.params)
        pname = kwname if kwname in params else (params[argpos] if argpos is not None and argpos < len(params) else None)
        if pname is None:
            continue
        for sub in ast.walk(g.node):
            if isinstance(sub, ast.If) and isinstance(sub.test, ast.Compare) and len(sub.test.ops) == 1 and isinstance(sub.test.ops[0], ast.NotIn) and isinstance(sub.test.left, ast.Name) and sub.test.left.id == pname:
                if sub.body and isinstance(sub.body[0], ast.Raise):
                    return True
    return False


def _required_keys_semantic(fi: FuncInfo, prog: Program) -> Optional[Set[str]]:
    """The keys a validator requires, found by asking it: a key is required when the validator, interpreted on a valid
    dictionary from which that key was taken away, raises.  Works for whatever way the validator is written (a loop
    over a table, helpers, dict.get with a sentinel).  None when the interpreter cannot follow the validator."""
    from .termalg import DictV, ListV, Raised, TermAlg, num

    S = lambda s: ("str", s)  # noqa: E731

    def clause():
        return DictV({S("constant"): num(1), S("coefficients"): DictV({S("x"): num(2)})})

    def contract():
        return DictV({S("input_vars"): ListV([S("x")]), S("output_vars"): ListV([S("y")]), S("assumptions"): ListV([clause()]), S("guarantees"): ListV([clause()])})

    if fi.name == "validate_contract_dict":
        mk, args = contract, lambda d: [d, S("c"), True]
    elif fi.name == "_check_clause":
        mk, args = clause, lambda d: [d, S("c")]
    else:
        return None
    try:
        TermAlg(prog).call(fi, args(mk()))
    except Exception:
        return None  # the valid dictionary itself is not accepted / not followed: let the reading of the syntax decide
    req: Set[str] = set()
    for k in list(mk().d):
        d = mk()
        del d.d[k]
        try:
            TermAlg(prog).call(fi, args(d))
        except Raised:
            req.add(k[1])
        except Exception:
            return None
    return req


def _required_keys(fi: FuncInfo, prog: Optional[Program] = None) -> Set[str]:
    """Keys k for which the function has `if k not in X: raise ...` (also through `for kw in [..]`, and through a
    newly extracted helper that is handed the key); asked of the validator itself when the interpreter can follow it."""
    if prog is not None:
        sem = _required_keys_semantic(fi, prog)
        if sem is not None:
            return sem
    req: Set[str] = set()
    lists: Dict[str, List[str]] = {}
    for node in ast.walk(fi.node):
        if isinstance(node, ast.Assign) and isinstance(node.targets[0], ast.Name) and isinstance(node.value, (ast.List, ast.Tuple)):
            vals = [e.value for e in node.value.elts if isinstance(e, ast.Constant) and isinstance(e.value, str)]
            if len(vals) == len(node.value.elts):
                lists[node.targets[0].id] = vals
    for node in ast.walk(fi.node):
        if isinstance(node, ast.For) and isinstance(node.target, ast.Name):
            it = node.iter
            keys = None
            if isinstance(it, ast.Name) and it.id in lists:
                keys = lists[it.id]
            elif isinstance(it, (ast.List, ast.Tuple)):
                keys = [e.value for e in it.elts if isinstance(e, ast.Constant)]
            if keys is None:
                continue
            for sub in ast.walk(node):
                if isinstance(sub, ast.If) and isinstance(sub.test, ast.Compare) and len(sub.test.ops) == 1 and isinstance(sub.test.ops[0], ast.NotIn) and isinstance(sub.test.left, ast.Name) and sub.test.left.id == node.target.id:
                    if sub.body and isinstance(sub.body[0], ast.Raise):
                        req |= set(keys)
                if prog is not None and isinstance(sub, ast.Call):
                    hn = sub.func.attr if isinstance(sub.func, ast.Attribute) else sub.func.id if isinstance(sub.func, ast.Name) else None
                    if hn is None:
                        continue
                    for ai, a in enumerate(sub.args):
                        if isinstance(a, ast.Name) and a.id == node.target.id and _helper_requires_param(prog, hn, ai, None):
                            req |= set(keys)
                    for kw_ in sub.keywords:
                        if isinstance(kw_.value, ast.Name) and kw_.value.id == node.target.id and _helper_requires_param(prog, hn, None, kw_.arg):
                            req |= set(keys)
    for node in ast.walk(fi.node):
        if isinstance(node, ast.If) and isinstance(node.test, ast.Compare) and len(node.test.ops) == 1 and isinstance(node.test.ops[0], ast.NotIn) and isinstance(node.test.left, ast.Constant):
            if node.body and isinstance(node.body[0], ast.Raise):
                req.add(node.test.left.value)
        if prog is not None and isinstance(node, ast.Call):
            hn = node.func.attr if isinstance(node.func, ast.Attribute) else node.func.id if isinstance(node.func, ast.Name) else None
            if hn is not None:
                for ai, a in enumerate(node.args):
                    if isinstance(a, ast.Constant) and isinstance(a.value, str) and _helper_requires_param(prog, hn, ai, None):
                        req.add(a.value)
    return req


# ------------------------------------------------ optional results are checked
def _none_positions(fi: FuncInfo) -> Set[int]:
    """Positions at which the function explicitly returns None: -1 = the whole result, i = element i of a tuple."""
    out: Set[int] = set()
    if isinstance(fi.node, ast.Lambda):
        return out
    fl = Flow(fi.node)

    def may_be_none(e: Optional[ast.AST], depth: int = 0) -> bool:
        if e is None or (isinstance(e, ast.Constant) and e.value is None):
            return True
        if isinstance(e, ast.IfExp):
            return may_be_none(e.body, depth + 1) or may_be_none(e.orelse, depth + 1)
        if isinstance(e, ast.Name) and depth < 3:
            # a local that some assignment binds to None (single exit: `optimum = None ... return optimum`)
            return any(may_be_none(d, depth + 1) for d in fl.defs.get(e.id, []) if isinstance(d, (ast.Constant, ast.IfExp, ast.Name)))
        return False

    for node in ast.walk(fi.node):
        if isinstance(node, ast.Return):
            v = node.value
            if may_be_none(v):
                out.add(-1)
            elif isinstance(v, ast.Tuple):
                for i, e in enumerate(v.elts):
                    if may_be_none(e):
                        out.add(i)
    return out


def _derefs_param(fi: FuncInfo, p: str) -> bool:
    """Does the function use parameter p as an object (attribute / method / subscript) without testing it for None?"""
    tests = False
    uses = False
    for node in ast.walk(fi.node):
        if isinstance(node, ast.Compare) and isinstance(node.left, ast.Name) and node.left.id == p and any(isinstance(o, (ast.Is, ast.IsNot)) for o in node.ops):
            tests = True
        if isinstance(node, (ast.If, ast.IfExp, ast.While)) and isinstance(node.test, ast.Name) and node.test.id == p:
            tests = True
        if isinstance(node, ast.UnaryOp) and isinstance(node.op, ast.Not) and isinstance(node.operand, ast.Name) and node.operand.id == p:
            tests = True
        if isinstance(node, (ast.Attribute, ast.Subscript)) and isinstance(node.value, ast.Name) and node.value.id == p:
            uses = True
    return uses and not tests


def rule_optional_results(ctx: Ctx, rule: str = "optional-result-unchecked") -> None:
    """A value that a callee may return as None ('declined' / 'unbounded') is tested before it is used as an object:
    otherwise AttributeError / TypeError escapes instead of a documented error."""
    from .pathsim import Sim, mentions, show as vshow

    prog = ctx.prog
    producers: Dict[str, Set[int]] = {}
    for fi in prog.all_functions():
        pos = _none_positions(fi)
        # procedures (every return is None / no return value) are not 'optional results'
        if pos and not isinstance(fi.node, ast.Lambda):
            rets = [n for n in ast.walk(fi.node) if isinstance(n, ast.Return)]
            if all(r.value is None or (isinstance(r.value, ast.Constant) and r.value.value is None) for r in rets):
                continue
            producers[fi.key] = pos
    byname: Dict[str, List[str]] = {}
    for k in producers:
        byname.setdefault(k.split(".")[-1], []).append(k)
    n_sites = 0
    for fi in prog.all_functions():
        if isinstance(fi.node, ast.Lambda):
            continue
        called = set()
        for node in ast.walk(fi.node):
            if isinstance(node, ast.Call):
                nm = node.func.attr if isinstance(node.func, ast.Attribute) else node.func.id if isinstance(node.func, ast.Name) else None
                if nm in byname:
                    called.add(nm)
                if isinstance(node.func, ast.Subscript) and "TACTICS" in norm(node.func):
                    called.add("_tactic_4")
        if not called:
            continue
        try:
            paths = Sim(prog, fi, loop_iters=(0, 1), max_paths=6000).paths()
        except AnalysisError:
            ctx.cannot_decide(rule, fi.key, "paths", "too many paths to follow optional results")
            continue
        reported = set()
        for p in paths:
            checked: Set[Any] = set()
            optional: Dict[Any, str] = {}
            for e in p.events:
                if e["kind"] == "call":
                    cal = e["callee"]
                    nm = cal.split(".")[-1].rstrip("[]")
                    keys = byname.get(nm, [])
                    if "TACTICS" in cal:
                        keys = byname.get("_tactic_4", [])
                    for k in keys:
                        for pos in producers[k]:
                            v = e["result"] if pos == -1 else ("item", e["result"], pos)
                            optional[v] = k
                    # use of an optional value as receiver or as a dereferenced argument
                    for v, src in list(optional.items()):
                        if v in checked:
                            continue
                        used = None
                        if e.get("recv") is not None and e["recv"] == v:
                            used = "method call on it"
                        else:
                            callee_fi = prog.funcs.get(e["f"][1]) if e["f"][0] == "func" else None
                            cands = [callee_fi] if callee_fi is not None else [prog.funcs[k2] for k2 in prog.funcs if k2.endswith("." + nm) and e["f"][0] == "attr"]
                            for c in cands:
                                params = c.params[1:] if c.kind in ("method", "property") and e["f"][0] == "attr" else c.params
                                bound = list(zip(params, e["args"])) + [(kname, val) for kname, val in e["kws"]]
                                for pn, av in bound:
                                    if av == v and _derefs_param(c, pn):
                                        used = "passed to %s, which uses its parameter '%s' as an object" % (c.key, pn)
                        if used:
                            n_sites += 1
                            key_ = (fi.key, norm(e["node"])[:80])
                            if key_ not in reported:
                                reported.add(key_)
                                ctx.violation(
                                    rule,
                                    fi.key,
                                    "optional result of %s used unchecked: %s" % (src, norm(e["node"])[:70]),
                                    "%s may return None there; on path [%s] the value reaches `%s` (%s) without an `is None` test: AttributeError/TypeError escapes" % (src, p.label()[:120], norm(e["node"])[:80], used),
                                    where="%s:%d" % (fi.module.relpath, e["node"].lineno),
                                )
                elif e["kind"] == "branch":
                    t = e["test"]
                    for v in list(optional):
                        if mentions(t, lambda x, v=v: x == v):
                            checked.add(v)
        ctx.ok(rule, fi.key, "%s tests optional results (%s) before using them as objects" % (fi.key, ", ".join(sorted(called))), nontrivial=True) if not reported else None
    ctx.extra["optional_producers"] = {k: sorted(v) for k, v in producers.items()}
    ctx.floor("functions returning an optional result", len(producers), 2)


def rule_validator_types(ctx: Ctx, rule: str = "validator-types") -> None:
    """What from_dict feeds to float() / iterates as a dict must have been type-checked by the clause validator:
    otherwise a field 'of the wrong kind' escapes as TypeError instead of ContractFormatError / ValueError."""
    prog = ctx.prog
    chk = prog.func("serializer._check_clause")
    fd = prog.func("PolyhedralIoContract.from_dict")
    if ctx.extra.get("validator_faults_followed") is True:
        # the fault enumeration (rule validator-faults, run before this one) followed the validators on every kind of
        # ill-typed field: what this reading of the syntax would conclude from the shape of the tests is already decided
        ctx.ok(rule, chk.key, "_check_clause / validate_contract_dict: kind tests (decided by the enumeration of ill-typed dictionaries)", nontrivial=False)
        return
    p0 = chk.params[0]
    numeric = ("int", "float", "Number", "Real", "numeric")

    def isinstance_tests(pred) -> List[ast.Call]:
        out = []
        for node in ast.walk(chk.node):
            if isinstance(node, ast.Call) and isinstance(node.func, ast.Name) and node.func.id == "isinstance" and len(node.args) == 2 and pred(node):
                out.append(node)
        return out

    def guarded_raise(call: ast.Call) -> bool:
        # the isinstance test occurs (possibly negated / inside a boolean expression) in an `if` that raises ContractFormatError
        for node in ast.walk(chk.node):
            if isinstance(node, ast.If) and any(x is call for x in ast.walk(node.test)):
                for st in node.body + node.orelse:
                    for r in ast.walk(st):
                        if isinstance(r, ast.Raise) and exc_class_of(r.exc) in ("ContractFormatError", "ValueError"):
                            return True
        return False

    # what from_dict does with clause fields
    uses = {"float(constant)": False, "coefficients.items()": False, "coefficient values as numbers": False}
    for node in [n_ for root in with_new_helpers(prog, fd) for n_ in ast.walk(root)]:
        t = norm(node)
        if isinstance(node, ast.Call) and norm(node.func) == "float" and "['constant']" in t:
            uses["float(constant)"] = True
        if isinstance(node, ast.Call) and t.endswith("['coefficients'].items()"):
            uses["coefficients.items()"] = True
            uses["coefficient values as numbers"] = True  # PolyhedralTerm.__init__ applies float() to every value
    checks = [
        ("a clause that is not a dictionary is rejected", True, lambda c: isinstance(c.args[0], ast.Name) and c.args[0].id == p0 and "dict" in norm(c.args[1])),
        ("a constant that is not a number is rejected", uses["float(constant)"], lambda c: any(n in norm(c.args[1]) for n in numeric) and not _is_values_loop_var(chk, c.args[0])),
        ("coefficients that are not a dictionary are rejected", uses["coefficients.items()"], lambda c: "dict" in norm(c.args[1]) and not (isinstance(c.args[0], ast.Name) and c.args[0].id == p0)),
        ("a coefficient that is not a number is rejected", uses["coefficient values as numbers"], lambda c: any(n in norm(c.args[1]) for n in numeric) and _is_values_loop_var(chk, c.args[0])),
    ]
    n = 0
    for label, needed, pred in checks:
        if not needed:
            continue
        n += 1
        construct = "_check_clause: %s" % label
        tests = [c for c in isinstance_tests(pred) if guarded_raise(c)]
        if tests:
            ctx.ok(rule, chk.key, construct)
        else:
            ctx.violation(rule, chk.key, construct, "no such type check before from_dict converts the field: a machine dictionary with that field of the wrong kind escapes as TypeError", where=chk.where)
    ctx.floor("clause field type checks needed", n, 3)
    # top level: every field is a list; a test that a string also passes (Sequence, Iterable, ...) lets
    # "input_vars": "i" through, which is then read character by character
    val = prog.func("serializer.validate_contract_dict")
    tests = []
    for root in with_new_helpers(prog, val):
        # in the validator itself the dictionary is its first parameter; an extracted helper receives it as one of its own
        dict_params = {val.params[0]} if root is val.node else {a.arg for a in root.args.args}
        fl = Flow(root)
        field_names = set()
        for nm, defs in fl.defs.items():
            if any(isinstance(d, ast.Subscript) and isinstance(d.value, ast.Name) and d.value.id in dict_params for d in defs):
                field_names.add(nm)
        for node in ast.walk(root):
            if isinstance(node, ast.Call) and isinstance(node.func, ast.Name) and node.func.id == "isinstance" and len(node.args) == 2:
                a0 = node.args[0]
                direct = isinstance(a0, ast.Subscript) and isinstance(a0.value, ast.Name) and a0.value.id in dict_params
                if (isinstance(a0, ast.Name) and a0.id in field_names) or direct:
                    tests.append(node)
    construct = "validate_contract_dict: a field that is not a list is rejected (a string is not a list)"
    concrete = {"list", "tuple", "List", "Tuple", "MutableSequence"}
    str_accepting = {"Sequence", "Iterable", "Collection", "Container", "Sized", "Reversible", "Hashable", "object", "str"}
    if not tests:
        ctx.violation(rule, val.key, construct, "the kind of the top-level fields is never tested", where=val.where)
    else:
        bad = []
        unknown = []
        for t_ in tests:
            names = {x.attr if isinstance(x, ast.Attribute) else x.id for x in ast.walk(t_.args[1]) if isinstance(x, (ast.Name, ast.Attribute))} - {"typing", "abc", "collections"}
            if names & str_accepting:
                bad.append(norm(t_))
            elif not names <= concrete:
                unknown.append(norm(t_))
        if bad:
            ctx.violation(rule, val.key, construct, "`%s` is also true of a string: \"input_vars\": \"i\" is accepted and read as ['i'], a constraint string is parsed character by character" % bad[0], where=val.where)
        elif unknown:
            ctx.cannot_decide(rule, val.key, construct, "type test `%s` is not one of list / tuple" % unknown[0])
        else:
            ctx.ok(rule, val.key, construct)


def rule_validator_refuses(ctx: Ctx, rule: str = "validator-types") -> None:
    """Every kind test of the two validators refuses: when an `isinstance` test of validate_contract_dict or
    _check_clause fails (all the others holding), every path ends in a documented error.  A test whose failing side
    falls through accepts the ill-typed field (a string read as a list of characters, a list read as a clause)."""
    from .pathsim import Sim, const, walk

    prog = ctx.prog
    exc = ExcTable(prog)
    total = 0
    for key in ("serializer.validate_contract_dict", "serializer._check_clause"):
        fi = prog.func(key)
        # the distinct isinstance tests met on any path
        seen: Dict[str, Any] = {}

        def collect(v):
            if isinstance(v, tuple) and v and v[0] == "call" and v[1] == "isinstance":
                seen.setdefault(repr((_no_sites(v[2][0]), _type_names(v[2][1]))), (_no_sites(v[2][0]), _type_names(v[2][1])))
            return None

        try:
            for _p in Sim(prog, fi, assume=lambda v: (collect(v), const(True) if isinstance(v, tuple) and v and v[0] == "call" and v[1] == "isinstance" else None)[1], loop_iters=(1,)).paths():
                pass
        except AnalysisError as ex:
            ctx.cannot_decide(rule, key, "%s: kind tests refuse" % fi.name, str(ex))
            continue
        for tag, (subject, types) in sorted(seen.items()):
            total += 1
            construct = "%s: a value failing isinstance(%s, %s) is refused with a documented error" % (fi.name, show_v(subject), "/".join(types) or "?")

            def is_target(v, subject=subject, types=types) -> bool:
                return isinstance(v, tuple) and bool(v) and v[0] == "call" and v[1] == "isinstance" and _no_sites(v[2][0]) == subject and _type_names(v[2][1]) == types

            def assume(v, is_target=is_target):
                if isinstance(v, tuple) and v and v[0] == "call" and v[1] == "isinstance" and not is_target(v):
                    return const(True)
                return None  # the test under scrutiny is left open: both outcomes are explored

            bad = None
            reached = False
            for p in Sim(prog, fi, assume=assume, loop_iters=(1,)).paths():
                failed = False
                for e in p.events:
                    if e["kind"] != "branch":
                        continue
                    t, neg = e["test"], False
                    while isinstance(t, tuple) and t and t[0] == "un" and t[1] == "Not":
                        t, neg = t[2], not neg
                    if is_target(t) and (bool(e["taken"]) != neg) is False:
                        failed = True
                if not failed:
                    continue
                reached = True
                if p.terminal == "return":
                    bad = "the function returns normally (path %s)" % (p.label()[:120] or "straight line")
                elif not documented(exc, p.exc_cls):
                    bad = "raises %s" % p.exc_cls
            if not reached:
                ctx.cannot_decide(rule, key, construct, "no path")
            elif bad:
                ctx.violation(rule, key, construct, bad + ": the ill-typed field is accepted", where=fi.where)
            else:
                ctx.ok(rule, key, construct)
    ctx.floor("kind tests of the validators", total, 5)


def _no_sites(v):
    """A simulated value without the call-site counters (they number the calls met so far on the path, which differs
    between two simulations that fold different tests)."""
    if not isinstance(v, tuple) or not v:
        return v
    if v[0] in ("call", "new") and len(v) == 5 and isinstance(v[4], int):
        return (v[0], v[1], _no_sites(v[2]), _no_sites(v[3]), 0)
    if v[0] == "mcall" and len(v) == 6 and isinstance(v[5], int):
        return (v[0], v[1], _no_sites(v[2]), _no_sites(v[3]), _no_sites(v[4]), 0)
    return tuple(_no_sites(x) for x in v)


def _type_names(v) -> Tuple[str, ...]:
    from .pathsim import walk

    out = []
    for x in walk(v):
        if isinstance(x, tuple) and len(x) == 2 and x[0] in ("ext", "class") and isinstance(x[1], str):
            out.append(x[1].split(".")[-1])
    return tuple(sorted(set(out)))


def show_v(v) -> str:
    from .pathsim import show

    return show(v, 3)


def _is_values_loop_var(fi: FuncInfo, e: ast.AST) -> bool:
    """Is e a variable ranging over the values of a dictionary (for v in d.values() / for k, v in d.items())?"""
    if not isinstance(e, ast.Name):
        return False
    for node in ast.walk(fi.node):
        gens = []
        if isinstance(node, ast.For):
            gens.append((node.target, node.iter))
        elif isinstance(node, (ast.ListComp, ast.GeneratorExp, ast.SetComp)):
            gens += [(g.target, g.iter) for g in node.generators]
        for tgt, it in gens:
            t = norm(it)
            if t.endswith(".values()") and isinstance(tgt, ast.Name) and tgt.id == e.id:
                return True
            if t.endswith(".items()") and isinstance(tgt, ast.Tuple) and len(tgt.elts) == 2 and isinstance(tgt.elts[1], ast.Name) and tgt.elts[1].id == e.id:
                return True
    return False


def rule_solver_dict_keys(ctx: Ctx, rule: str = "solver-dict-keys") -> None:
    """C14: the dictionary returned by PolyhedralTerm.solve_for_variables has whatever keys sympy solved for (it is
    partial for dependent rows and empty when there is no solution).  Every subscript of it must use a key that was
    taken from the dictionary itself (iteration over it / .keys() / .items(), or a membership test on the path);
    otherwise KeyError escapes, which the tactic dispatcher does not absorb."""
    from .pathsim import Sim, walk, mentions, show as vshow

    prog = ctx.prog
    producer = "solve_for_variables"
    n = 0
    for fi in prog.all_functions():
        if isinstance(fi.node, ast.Lambda):
            continue
        if not any(isinstance(c, ast.Call) and isinstance(c.func, ast.Attribute) and c.func.attr == producer for c in ast.walk(fi.node)):
            continue
        try:
            paths = Sim(prog, fi, loop_iters=(0, 1, 2), max_paths=6000).paths()
        except AnalysisError as ex:
            ctx.cannot_decide(rule, fi.key, "subscripts of the solver's dictionary", str(ex))
            continue
        bad: Dict[str, str] = {}
        good = 0
        for p in paths:
            dicts = {e["result"] for e in p.events if e["kind"] == "call" and e["callee"].endswith(producer)}
            if not dicts:
                continue
            # a square system that numpy.linalg.solve accepted (LinAlgError, a ValueError, otherwise) over the same
            # rows is non-singular: the symbolic solver then returns a value for every requested variable
            full = set()
            solved_rows = [a for e in p.events if e["kind"] == "call" and e["callee"].endswith("linalg.solve") for a in e["args"]]
            for e in p.events:
                if e["kind"] == "call" and e["callee"].endswith(producer):
                    srcs = {x for a in e["args"] for x in walk(a) if isinstance(x, tuple) and x and x[0] == "item"}  # the row / variable lists handed to the solver
                    if solved_rows and srcs and any(mentions(m, lambda y, srcs=srcs: y in srcs) for m in solved_rows):
                        full.add(e["result"])
            member_ok = set()
            for e in p.events:
                if e["kind"] == "branch" and e["taken"]:
                    for x in walk(e["test"]):
                        if isinstance(x, tuple) and x and x[0] == "cmp" and x[1] == "In" and x[3] in dicts:
                            member_ok.add((x[3], x[2]))
            seen = set()
            roots = [p.value] if p.value is not None else []
            for e in p.events:
                roots += [v for v in list(e.get("args", ())) + [e.get("recv"), e.get("value"), e.get("test")] if v is not None]
            for r in roots:
                for x in walk(r):
                    if not (isinstance(x, tuple) and x and x[0] == "sub" and x[1] in dicts) or x in seen:
                        continue
                    seen.add(x)
                    d, k = x[1], x[2]
                    own = False
                    if isinstance(k, tuple) and len(k) == 4 and k[0] == "iter":
                        src = k[1]
                        own = src == d or (isinstance(src, tuple) and src[0] == "mcall" and src[1] == "keys" and src[2] == d)
                    if isinstance(k, tuple) and k and k[0] == "item" and k[2] == 0 and isinstance(k[1], tuple) and len(k[1]) == 4 and k[1][0] == "iter":
                        src = k[1][1]
                        own = own or (isinstance(src, tuple) and src[0] == "mcall" and src[1] == "items" and src[2] == d)
                    if own or (d, k) in member_ok or d in full:
                        good += 1
                    else:
                        bad[vshow(k, 4)] = p.label()
        n += good + len(bad)
        if not good and not bad and any(p.calls(producer) for p in paths):
            n += 1  # the dictionary is consumed without subscripts (items() / values()): nothing can be missing
            ctx.ok(rule, fi.key, "%s: the solver's dictionary is consumed without subscripts" % fi.key.split(".")[-1], nontrivial=False)
        construct = "%s: the solver's dictionary is only read at keys it is known to have" % fi.key.split(".")[-1]
        if bad:
            k0 = sorted(bad)[0]
            ctx.violation(rule, fi.key, construct, "read at %s, which need not be among the solved variables (dependent rows give a partial solution, no solution gives {}): KeyError escapes (path %s)" % (k0, bad[k0]), where=fi.where)
        elif good:
            ctx.ok(rule, fi.key, construct)
    ctx.floor("solver dictionary reads", n, 1)


# ---------------------------------------------------------------------------
# Division sites (ZeroDivisionError must not escape)
# ---------------------------------------------------------------------------
def _stmt_exits(body: List[ast.stmt]) -> bool:
    return bool(body) and isinstance(body[-1], (ast.Continue, ast.Raise, ast.Return, ast.Break))


def _zero_tests(test: ast.AST) -> List[str]:
    """Normalised texts E such that the test is true whenever E == 0 (E == 0, 0 == E, not E, or-combinations)."""
    out: List[str] = []
    if isinstance(test, ast.BoolOp) and isinstance(test.op, ast.Or):
        for v in test.values:
            out += _zero_tests(v)
    elif isinstance(test, ast.Compare) and len(test.ops) == 1 and isinstance(test.ops[0], ast.Eq):
        l, r = test.left, test.comparators[0]
        if isinstance(r, ast.Constant) and r.value == 0:
            out.append(canon(l))
        if isinstance(l, ast.Constant) and l.value == 0:
            out.append(canon(r))
    elif isinstance(test, ast.UnaryOp) and isinstance(test.op, ast.Not):
        out.append(canon(test.operand))
    return out


class _DivEvidence:
    """Evidence, inside one function, that an expression is non-zero at a given statement."""

    def __init__(self, fi: FuncInfo):
        self.fi = fi
        self.fl = Flow(fi.node)
        self.parents: Dict[ast.AST, ast.AST] = {}
        for nd in ast.walk(fi.node):
            for ch in ast.iter_child_nodes(nd):
                self.parents[ch] = nd

    def defs_of(self, name: str) -> List[ast.AST]:
        return self.fl.defs.get(name, [])

    def from_vars_of(self, e: ast.AST, holder: str, depth: int = 0) -> bool:
        """e denotes a variable that occurs in <holder>: an element of list_intersection(.., holder.vars)."""
        if depth > 4:
            return False
        if isinstance(e, ast.Subscript):
            return self.from_vars_of(e.value, holder, depth + 1)
        if isinstance(e, ast.Call) and isinstance(e.func, ast.Name) and e.func.id == "list_intersection":
            return any(canon(a) == holder + ".vars" for a in e.args)
        if isinstance(e, ast.Attribute) and canon(e) == holder + ".vars":
            return True
        if isinstance(e, ast.Name):
            ds = self.defs_of(e.id)
            return bool(ds) and all(self.from_vars_of(d, holder, depth + 1) for d in ds)
        return False

    def guarded_membership(self, var: ast.AST, holder: str, site: ast.AST) -> bool:
        for nd in ast.walk(self.fi.node):
            if isinstance(nd, ast.If) and nd.lineno < getattr(site, "lineno", 10**9) and _stmt_exits(nd.body):
                t = nd.test
                if isinstance(t, ast.Compare) and len(t.ops) == 1 and isinstance(t.ops[0], ast.NotIn) and canon(t.left) == canon(var) and canon(t.comparators[0]) == holder + ".vars":
                    return True
                if isinstance(t, ast.UnaryOp) and isinstance(t.op, ast.Not) and isinstance(t.operand, ast.Call) and canon(t.operand.func) == holder + ".contains_var" and canon(t.operand.args[0]) == canon(var):
                    return True
        return False

    def coefficient_of_present(self, d: ast.AST, site: ast.AST, depth: int = 0) -> Optional[str]:
        if depth > 3:
            return None
        if isinstance(d, ast.Call) and isinstance(d.func, ast.Attribute) and d.func.attr == "get_coefficient" and len(d.args) == 1:
            holder = canon(d.func.value)
            if self.from_vars_of(d.args[0], holder) or self.guarded_membership(d.args[0], holder, site):
                return "coefficient of a variable that occurs in %s" % holder
        if isinstance(d, ast.Subscript):
            base = d.value
            if isinstance(base, ast.Attribute) and base.attr == "variables":
                holder = canon(base.value)
                if self.from_vars_of(d.slice, holder) or self.guarded_membership(d.slice, holder, site):
                    return "stored coefficient of a variable that occurs in %s" % holder
            if isinstance(base, ast.Name):
                for df in self.defs_of(base.id):
                    if isinstance(df, ast.DictComp) and len(df.generators) == 1:
                        g = df.generators[0]
                        val = df.value
                        if isinstance(val, ast.Call) and isinstance(val.func, ast.Attribute) and val.func.attr == "get_coefficient" and canon(val.args[0]) == canon(g.target) == canon(df.key):
                            holder = canon(val.func.value)
                            if self.from_vars_of(g.iter, holder) and (self.from_vars_of(d.slice, holder)):
                                return "coefficient of a variable that occurs in %s (via %s)" % (holder, base.id)
        if isinstance(d, ast.Name):
            ds = self.defs_of(d.id)
            rs = [self.coefficient_of_present(x, site, depth + 1) for x in ds]
            if rs and all(rs):
                return rs[0]
        return None

    def _enum_canon(self, e: ast.AST) -> str:
        """canon(e) with every `for i, v in enumerate(L)` element name v written as L[i]"""
        import copy as _copy

        m: Dict[str, ast.AST] = {}
        for nd in ast.walk(self.fi.node):
            if isinstance(nd, (ast.For, ast.comprehension)) and isinstance(nd.iter, ast.Call) and isinstance(nd.iter.func, ast.Name) and nd.iter.func.id == "enumerate" and len(nd.iter.args) == 1:
                t = nd.target
                if isinstance(t, ast.Tuple) and len(t.elts) == 2 and all(isinstance(x, ast.Name) for x in t.elts):
                    m[t.elts[1].id] = ast.Subscript(value=_copy.deepcopy(nd.iter.args[0]), slice=ast.Name(id=t.elts[0].id, ctx=ast.Load()), ctx=ast.Load())
        if not m:
            return canon(e)

        class S(ast.NodeTransformer):
            def visit_Name(self, nd):
                return _copy.deepcopy(m[nd.id]) if nd.id in m else nd

        return canon(ast.fix_missing_locations(S().visit(_copy.deepcopy(e))))

    def zero_guarded(self, d: ast.AST, site: ast.AST) -> bool:
        want = self._enum_canon(d)
        cur: ast.AST = site
        while cur in self.parents:
            par = self.parents[cur]
            for fld in ("body", "orelse"):
                blk = getattr(par, fld, None)
                if isinstance(blk, list) and any(cur is s_ for s_ in blk):
                    for s_ in blk:
                        if s_ is cur:
                            break
                        if isinstance(s_, ast.If) and want in self._zero_tests_canon(s_.test) and _stmt_exits(s_.body):
                            return True
            if isinstance(par, ast.If) and any(cur is s_ for s_ in par.orelse) and want in self._zero_tests_canon(par.test):
                return True
            if isinstance(par, ast.If) and any(cur is s_ for s_ in par.body) and want in self._nonzero_tests_canon(par.test):
                return True
            cur = par
        return False

    def _positive_number(self, e: ast.AST) -> Optional[float]:
        """the value of a numeric literal, or of a module-level name bound once to one"""
        if isinstance(e, ast.Constant) and isinstance(e.value, (int, float)) and not isinstance(e.value, bool):
            return float(e.value)
        if isinstance(e, ast.UnaryOp) and isinstance(e.op, ast.USub):
            v = self._positive_number(e.operand)
            return None if v is None else -v
        if isinstance(e, ast.Name) and e.id not in self.fl.defs and e.id not in self.fi.params:
            node = self.fi.module.assign_nodes.get(e.id)
            binds = sum(1 for st in ast.walk(self.fi.module.tree) if isinstance(st, (ast.Assign, ast.AnnAssign, ast.AugAssign)) for t in (st.targets if isinstance(st, ast.Assign) else [st.target]) for x in ast.walk(t) if isinstance(x, ast.Name) and x.id == e.id)
            if node is not None and binds == 1 and getattr(node, "value", None) is not None:
                return self._positive_number(node.value)
        return None

    def _nonzero_tests_canon(self, test: ast.AST) -> List[str]:
        """expressions that are non-zero whenever `test` holds: `x`, `x != 0`, `x > K` / `x >= K` (K > 0), `x < K` /
        `x <= K` (K < 0), and every conjunct of an `and`"""
        out: List[str] = []
        if isinstance(test, ast.BoolOp) and isinstance(test.op, ast.And):
            for v in test.values:
                out += self._nonzero_tests_canon(v)
        elif isinstance(test, ast.Compare) and len(test.ops) == 1:
            l, r, op = test.left, test.comparators[0], test.ops[0]
            k = self._positive_number(r)
            if k is not None:
                if (isinstance(op, ast.NotEq) and k == 0) or (isinstance(op, ast.Gt) and k >= 0) or (isinstance(op, ast.GtE) and k > 0) or (isinstance(op, ast.Lt) and k <= 0) or (isinstance(op, ast.LtE) and k < 0):
                    out.append(self._enum_canon(l))
        elif isinstance(test, (ast.Name, ast.Attribute, ast.Subscript)):
            out.append(self._enum_canon(test))
        return out

    def _zero_tests_canon(self, test: ast.AST) -> List[str]:
        out: List[str] = []
        if isinstance(test, ast.BoolOp) and isinstance(test.op, ast.Or):
            for v in test.values:
                out += self._zero_tests_canon(v)
        elif isinstance(test, ast.Compare) and len(test.ops) == 1 and isinstance(test.ops[0], ast.Eq):
            l, r = test.left, test.comparators[0]
            if isinstance(r, ast.Constant) and r.value == 0:
                out.append(self._enum_canon(l))
            if isinstance(l, ast.Constant) and l.value == 0:
                out.append(self._enum_canon(r))
        elif isinstance(test, ast.UnaryOp) and isinstance(test.op, ast.Not):
            out.append(self._enum_canon(test.operand))
        return out

    def stmt_of(self, node: ast.AST) -> ast.AST:
        cur = node
        while cur in self.parents and not isinstance(cur, ast.stmt):
            cur = self.parents[cur]
        return cur

    def evidence(self, den: ast.AST, site: ast.AST) -> Optional[str]:
        lit = den.operand if isinstance(den, ast.UnaryOp) and isinstance(den.op, (ast.USub, ast.UAdd)) else den
        if isinstance(lit, ast.Constant) and isinstance(lit.value, (int, float)) and not isinstance(lit.value, bool) and lit.value != 0:
            return "non-zero literal"
        st = self.stmt_of(site)
        if self.zero_guarded(den, st):
            return "tested against zero on the way, the zero branch leaves"
        # a local bound once to the tested expression
        if isinstance(den, ast.Name):
            ds = self.defs_of(den.id)
            if len(ds) == 1 and self.zero_guarded(ds[0], st):
                return "tested against zero on the way, the zero branch leaves"
        why = self.coefficient_of_present(den, st)
        if why:
            return why + " (stored coefficients are non-zero: kernel laws)"
        return None


def rule_division_sites(ctx: Ctx, rule: str = "division-by-zero") -> None:
    """C14: ZeroDivisionError is not a documented error.  Every true division in the library (plots excluded, C18) has a
    denominator that is (a) a non-zero literal, (b) the stored coefficient of a variable known to occur in the term
    (stored coefficients are non-zero: the kernel laws of this check), or (c) tested against zero on the way, the zero
    branch leaving.  In a private helper that did not exist on the reference tree the evidence may also sit in every
    caller (the helper's parameters replaced by the arguments).  A denominator that is a number parsed from the
    constraint string and not tested is a violation."""
    from .pathsim import is_new_helper

    prog = ctx.prog
    n = 0
    ev_cache: Dict[str, _DivEvidence] = {}

    def ev_of(f: FuncInfo) -> _DivEvidence:
        if f.key not in ev_cache:
            ev_cache[f.key] = _DivEvidence(f)
        return ev_cache[f.key]

    def callers_evidence(fi: FuncInfo, den: ast.AST, depth: int = 0) -> Optional[str]:
        """the evidence found in every caller of a new private helper, with the parameters replaced by the arguments"""
        if depth > 2 or not ((fi.name.startswith("_") or fi.module.base.startswith("_")) and is_new_helper(fi.key)):
            return None  # (a function of a private module `_x.py` is as private as `_f`)
        import copy as _copy

        sites = []
        for g in prog.all_functions():
            if isinstance(g.node, ast.Lambda) or g is fi:
                continue
            for c in ast.walk(g.node):
                if isinstance(c, ast.Call) and ((isinstance(c.func, ast.Attribute) and c.func.attr == fi.name) or (isinstance(c.func, ast.Name) and c.func.id == fi.name)):
                    sites.append((g, c))
        if not sites:
            return None
        reasons = []
        for g, c in sites:
            params = list(fi.params)
            if fi.kind in ("method", "property", "classmethod") and isinstance(c.func, ast.Attribute):
                bind = {params[0]: c.func.value}
                params = params[1:]
            else:
                bind = {}
            for pn, a in zip(params, c.args):
                bind[pn] = a
            for k in c.keywords:
                if k.arg:
                    bind[k.arg] = k.value

            class Sub(ast.NodeTransformer):
                def visit_Name(self, nd):
                    return _copy.deepcopy(bind[nd.id]) if nd.id in bind else nd

            den_l = _copy.deepcopy(den)
            hev = ev_of(fi)

            class Loc(ast.NodeTransformer):
                def visit_Name(self, nd):
                    ds = hev.defs_of(nd.id)
                    if nd.id not in fi.params and len(ds) == 1 and isinstance(ds[0], ast.expr) and not any(isinstance(x, ast.Name) and x.id == nd.id for x in ast.walk(ds[0])):
                        return _copy.deepcopy(ds[0])
                    return nd

            den_l = Loc().visit(den_l)
            den2 = ast.fix_missing_locations(Sub().visit(den_l))
            r = ev_of(g).evidence(den2, c) or callers_evidence(g, den2, depth + 1)
            if r is None:
                return None
            reasons.append("%s in %s" % (r, g.key))
        return "; ".join(sorted(set(reasons)))

    def parsed_number(fi: FuncInfo, d: ast.AST) -> bool:
        """the denominator is an element of the parser's token chain (a number written in the constraint string)"""
        if not fi.module.relpath.endswith("grammar.py"):
            return False
        e = ev_of(fi)
        names = {x.id for x in ast.walk(d) if isinstance(x, ast.Name)}
        seen = set()
        work = list(names)
        while work:
            nm = work.pop()
            if nm in seen:
                continue
            seen.add(nm)
            if nm in fi.params:
                return True
            for df in e.defs_of(nm):
                work += [x.id for x in ast.walk(df) if isinstance(x, ast.Name)]
        return False

    for fi in prog.all_functions():
        if isinstance(fi.node, ast.Lambda) or fi.module.relpath.endswith("plots.py"):
            continue
        sites = [nd for nd in ast.walk(fi.node) if (isinstance(nd, ast.BinOp) and isinstance(nd.op, ast.Div)) or (isinstance(nd, ast.AugAssign) and isinstance(nd.op, ast.Div))]
        for site in sites:
            den = site.right if isinstance(site, ast.BinOp) else site.value
            n += 1
            construct = "%s: division by %s cannot raise ZeroDivisionError" % (fi.key.split(".")[-1], norm(den)[:60])
            where = "%s:%d" % (fi.module.relpath, site.lineno)
            why = ev_of(fi).evidence(den, site)
            if why is None:
                # the denominator may be a local bound to an expression over the helper's parameters
                d2 = den
                if isinstance(den, ast.Name) and len(ev_of(fi).defs_of(den.id)) == 1:
                    d2 = ev_of(fi).defs_of(den.id)[0]
                why = callers_evidence(fi, d2)
            if why:
                ctx.ok(rule, fi.key, construct, why, nontrivial=not why.startswith("non-zero literal"))
                continue
            if parsed_number(fi, den):
                ctx.violation(rule, fi.key, construct, "the denominator is a number written in the constraint string and is not tested: '(1/0) x <= 1' escapes as ZeroDivisionError instead of the syntax error", where=where)
                continue
            ctx.cannot_decide(rule, fi.key, construct, "no evidence found that the denominator is non-zero")
    ctx.floor("division sites", n, 5)


# ------------------------------------------------------------------ ordering of objects that have no order (C14, C06)
_ORDER_DUNDERS = ("__lt__", "__gt__", "__le__", "__ge__")


def _unorderable_classes(prog: Program) -> Set[str]:
    """Classes of the package that define __eq__/__hash__ but none of the ordering methods (their instances cannot be
    sorted: `sorted([Var('a'), Var('b')])` raises TypeError)."""
    out = set()
    for cname, ci in prog.classes.items():
        if any(prog.resolve_method(cname, d) is not None for d in _ORDER_DUNDERS):
            continue
        if any(norm(b).split(".")[-1] in ("NamedTuple", "Enum", "str", "int", "float", "tuple") for b in ci.node.bases):
            continue
        if any(norm(d).split("(")[0].split(".")[-1] == "dataclass" and "order=True" in norm(d) for d in ci.node.decorator_list):
            continue
        out.add(cname)
    return out


def rule_unorderable_sort(ctx: Ctx, rule: str = "unorderable-sort") -> None:
    """sorted()/min()/max()/.sort() without a key over a collection whose elements are objects of a class without
    an order raises TypeError as soon as two elements meet - typically only for the rare input with two offenders.
    The element class is read from annotations (parameters, returns of the package's functions, annotated fields)."""
    prog = ctx.prog
    bad = _unorderable_classes(prog)

    def ann_elem(a: Optional[ast.AST]) -> Optional[str]:
        """List[C] / Sequence[C] / Iterable[C] / Set[C] / Tuple[C, ...] / Optional[...] of those -> C"""
        if a is None:
            return None
        if isinstance(a, ast.Constant) and isinstance(a.value, str):
            try:
                a = ast.parse(a.value, mode="eval").body
            except SyntaxError:
                return None
        if isinstance(a, ast.Subscript):
            head = norm(a.value).split(".")[-1]
            inner = a.slice
            if head == "Optional":
                return ann_elem(inner)
            if head in ("List", "Sequence", "Iterable", "Set", "FrozenSet", "Collection", "list", "set", "Tuple", "tuple", "Iterator"):
                first = inner.elts[0] if isinstance(inner, ast.Tuple) and inner.elts else inner
                nm = norm(first).split(".")[-1].strip("'\"")
                return nm if nm in bad else None
        return None

    # attributes / properties / functions that give collections of an unorderable class
    coll_attr: Dict[str, str] = {}
    coll_func: Dict[str, str] = {}
    for fi in prog.funcs.values():
        if isinstance(fi.node, ast.Lambda):
            continue
        c = ann_elem(fi.node.returns)
        if c:
            (coll_attr if fi.kind == "property" else coll_func)[fi.name] = c
        for node in ast.walk(fi.node):
            if isinstance(node, ast.AnnAssign) and isinstance(node.target, ast.Attribute) and ann_elem(node.annotation):
                coll_attr[node.target.attr] = ann_elem(node.annotation)
    for ci in prog.classes.values():
        for f, _d in ci.fields:
            pass
    PASS_THROUGH = {"list_union", "list_diff", "list_intersection", "list", "tuple", "set", "reversed", "copy"}

    def elem_class(e: ast.AST, fi: FuncInfo, local: Dict[str, str], depth: int = 0) -> Optional[str]:
        if depth > 6:
            return None
        if isinstance(e, ast.Name):
            return local.get(e.id)
        if isinstance(e, ast.Attribute):
            return coll_attr.get(e.attr)
        if isinstance(e, ast.BinOp) and isinstance(e.op, ast.Add):
            return elem_class(e.left, fi, local, depth + 1) or elem_class(e.right, fi, local, depth + 1)
        if isinstance(e, ast.Call):
            nm = e.func.attr if isinstance(e.func, ast.Attribute) else e.func.id if isinstance(e.func, ast.Name) else None
            if nm in PASS_THROUGH:
                if nm == "copy" and isinstance(e.func, ast.Attribute):
                    return elem_class(e.func.value, fi, local, depth + 1)
                for a in e.args:
                    c = elem_class(a, fi, local, depth + 1)
                    if c:
                        return c
                return None
            if nm in coll_func:
                return coll_func[nm]
            if nm in bad and False:
                return None
        if isinstance(e, (ast.ListComp, ast.GeneratorExp, ast.SetComp)) and len(e.generators) == 1:
            g = e.generators[0]
            src = elem_class(g.iter, fi, local, depth + 1)
            if isinstance(e.elt, ast.Name) and isinstance(g.target, ast.Name) and e.elt.id == g.target.id:
                return src
            if isinstance(e.elt, ast.Call) and isinstance(e.elt.func, ast.Name) and e.elt.func.id in bad:
                return e.elt.func.id
            return None
        if isinstance(e, (ast.List, ast.Tuple, ast.Set)) and e.elts:
            for x in e.elts:
                if isinstance(x, ast.Call) and isinstance(x.func, ast.Name) and x.func.id in bad:
                    return x.func.id
        return None

    n = 0
    for fi in prog.all_functions():
        if isinstance(fi.node, ast.Lambda) or fi.module.base == "plots":
            continue
        local: Dict[str, str] = {}
        a = fi.node.args
        for arg in a.posonlyargs + a.args + a.kwonlyargs:
            c = ann_elem(arg.annotation)
            if c:
                local[arg.arg] = c
        # one forward pass over simple assignments (enough for straight-line helpers)
        for node in ast.walk(fi.node):
            if isinstance(node, ast.AnnAssign) and isinstance(node.target, ast.Name) and ann_elem(node.annotation):
                local[node.target.id] = ann_elem(node.annotation)
        for _round in range(2):
            for node in ast.walk(fi.node):
                if isinstance(node, ast.Assign) and len(node.targets) == 1 and isinstance(node.targets[0], ast.Name):
                    c = elem_class(node.value, fi, local)
                    if c:
                        local.setdefault(node.targets[0].id, c)
        for node in ast.walk(fi.node):
            if not isinstance(node, ast.Call):
                continue
            f = node.func
            what = None
            if isinstance(f, ast.Name) and f.id in ("sorted", "min", "max") and len(node.args) == 1:
                what, arg = f.id, node.args[0]
            elif isinstance(f, ast.Attribute) and f.attr == "sort" and not node.args:
                what, arg = ".sort", f.value
            if what is None:
                continue
            n += 1
            construct = "%s: %s(%s) compares elements that have an order" % (fi.key, what, norm(arg)[:40])
            if any(k.arg == "key" for k in node.keywords):
                ctx.ok(rule, fi.key, construct, nontrivial=False)
                continue
            c = elem_class(arg, fi, local)
            if c:
                ctx.violation(rule, fi.key, construct, "the elements are %s objects, which define no ordering: with two or more of them the call raises TypeError (an undocumented error, and the intended refusal is never raised)" % c, where="%s:%d" % (fi.module.relpath, node.lineno))
            else:
                ctx.ok(rule, fi.key, construct, nontrivial=False)
    ctx.floor("ordering calls (sorted/min/max/.sort) examined", n, 2)


# ------------------------------------------------------------------ in-place arithmetic on integer arrays (C14)
def rule_array_inplace_cast(ctx: Ctx, rule: str = "array-inplace-cast") -> None:
    """`arr op= <float>` on a numpy array whose elements may all be Python ints (built from a list with an int
    literal and no dtype) raises numpy's casting TypeError - only on the inputs for which every element happens to be
    the int literal."""
    prog = ctx.prog

    def is_floaty(e: ast.AST) -> bool:
        if isinstance(e, ast.Constant):
            return isinstance(e.value, float)
        if isinstance(e, ast.UnaryOp):
            return is_floaty(e.operand)
        if isinstance(e, ast.BinOp):
            return isinstance(e.op, ast.Div) or is_floaty(e.left) or is_floaty(e.right)
        if isinstance(e, ast.IfExp):
            return is_floaty(e.body) or is_floaty(e.orelse)
        if isinstance(e, ast.Call) and isinstance(e.func, ast.Name) and e.func.id == "float":
            return True
        return False

    def may_be_all_int(e: ast.AST) -> bool:
        """np.array(<display or comprehension>) without dtype whose element expression has an int literal alternative"""
        if not (isinstance(e, ast.Call) and norm(e.func).split(".")[-1] in ("array", "asarray") and e.args):
            return False
        if any(k.arg == "dtype" for k in e.keywords) or len(e.args) > 1:
            return False
        src = e.args[0]
        elts: List[ast.AST] = []
        if isinstance(src, (ast.ListComp, ast.GeneratorExp)):
            elts = [src.elt]
        elif isinstance(src, (ast.List, ast.Tuple)):
            elts = list(src.elts)

        def int_alt(x: ast.AST) -> bool:
            if isinstance(x, ast.Constant):
                return isinstance(x.value, int) and not isinstance(x.value, bool)
            if isinstance(x, ast.IfExp):
                return int_alt(x.body) or int_alt(x.orelse)
            if isinstance(x, ast.UnaryOp):
                return int_alt(x.operand)
            return False

        return bool(elts) and any(int_alt(x) for x in elts)

    n = 0
    for fi in prog.all_functions():
        if isinstance(fi.node, ast.Lambda) or fi.module.base == "plots":
            continue
        fl = Flow(fi.node)
        for node in ast.walk(fi.node):
            if isinstance(node, ast.AugAssign) and isinstance(node.target, ast.Name) and isinstance(node.op, (ast.Mult, ast.Add, ast.Sub, ast.Div)):
                ds = fl.defs.get(node.target.id, [])
                arr = [d for d in ds if may_be_all_int(d)]
                if not arr:
                    continue
                n += 1
                construct = "%s: `%s` keeps the array's element type" % (fi.key, norm(node)[:50])
                if isinstance(node.op, ast.Div) or is_floaty(node.value):
                    ctx.violation(rule, fi.key, construct, "%s is built by %s, whose elements are all the int literal for some inputs; the in-place operation with a float then raises numpy's casting TypeError instead of the documented error" % (node.target.id, norm(arr[0])[:70]), where="%s:%d" % (fi.module.relpath, node.lineno))
                else:
                    ctx.ok(rule, fi.key, construct)
    # no floor: a tree without any in-place operation on such an array has nothing to get wrong (the rule's positive
    # control is a registered breaking variant, not an instance count)
    ctx.ok(rule, "-", "in-place operations on possibly-integer arrays inspected: %d" % n, nontrivial=False)


# ------------------------------------------------------------------ every read of a name is bound (all properties)
def rule_definite_assignment(ctx: Ctx, rule: str = "definite-assignment") -> None:
    """No path of any function of the package reads a local that nothing has bound yet (UnboundLocalError), nor a
    name that exists nowhere (NameError): both are undocumented errors that surface only on the inputs taking that
    path - the error branch of a try whose handler stopped re-raising, the side of a flag that lost its default."""
    from .defassign import possibly_unbound, undefined_globals

    prog = ctx.prog
    if _DA_CACHE.get("digest") == prog.digest:
        for kind, args in _DA_CACHE["verdicts"]:
            getattr(ctx, kind)(*args[0], **args[1])
        ctx.floor("functions examined for unbound reads", _DA_CACHE["n"], 150)
        return
    verdicts: List[Tuple[str, Tuple[tuple, dict]]] = []

    real_ctx = ctx

    class _Rec:
        def ok(self, *a, **k):
            verdicts.append(("ok", (a, k)))
            real_ctx.ok(*a, **k)

        def violation(self, *a, **k):
            verdicts.append(("violation", (a, k)))
            real_ctx.violation(*a, **k)

        def cannot_decide(self, *a, **k):
            verdicts.append(("cannot_decide", (a, k)))
            real_ctx.cannot_decide(*a, **k)

    ctx = _Rec()
    exc = ExcTable(prog)
    n = 0
    from .defassign import locals_of

    enclosing: Dict[int, Set[str]] = {}
    for other in prog.all_functions():
        if isinstance(other.node, ast.Lambda):
            continue
        oa = other.node.args
        names = locals_of(other.node) | {x.arg for x in oa.posonlyargs + oa.args + oa.kwonlyargs}
        for x in ast.walk(other.node):
            if x is not other.node and isinstance(x, (ast.FunctionDef, ast.Lambda)):
                enclosing.setdefault(id(x), set()).update(names)
    for fi in prog.all_functions():
        if fi.module.base == "plots":
            continue
        n += 1
        construct = "%s: every local is bound before it is read, on every path" % fi.key
        try:
            bad = possibly_unbound(fi.node, exc)
        except AnalysisError as ex:
            ctx.cannot_decide(rule, fi.key, construct, str(ex))
            continue
        mod_names = set(fi.module.functions) | set(fi.module.classes) | set(fi.module.assigns) | set(fi.module.imports)
        for st in fi.module.tree.body:
            for x in ast.walk(st) if not isinstance(st, (ast.FunctionDef, ast.ClassDef)) else []:
                if isinstance(x, ast.Name) and isinstance(x.ctx, ast.Store):
                    mod_names.add(x.id)
                if isinstance(x, (ast.Import, ast.ImportFrom)):
                    # imports nested in a module-level `if TYPE_CHECKING:` / `try:` bind module names as well
                    for al in x.names:
                        mod_names.add((al.asname or al.name).split(".")[0])
        # names of enclosing functions (closures) and of the class body are visible too
        outer = enclosing.get(id(fi.node), set())
        missing = undefined_globals(fi.node, mod_names | outer | {"__class__", "__name__", "__file__"})
        if bad:
            nm, ln, how = bad[0]
            ctx.violation(rule, fi.key, construct, "`%s` is read at line %d (%s) on a path on which it has not been bound: UnboundLocalError instead of a documented outcome" % (nm, ln, how), where="%s:%d" % (fi.module.relpath, ln))
        elif missing:
            nm, ln = missing[0]
            ctx.violation(rule, fi.key, construct, "`%s` (line %d) is bound nowhere: NameError when the line is reached" % (nm, ln), where="%s:%d" % (fi.module.relpath, ln))
        else:
            ctx.ok(rule, fi.key, construct, nontrivial=False)
    _DA_CACHE.clear()
    _DA_CACHE.update({"digest": prog.digest, "verdicts": verdicts, "n": n})
    real_ctx.floor("functions examined for unbound reads", n, 150)


_DA_CACHE: Dict[str, Any] = {}


# ------------------------------------------------------------------ error messages that cannot be built (C14)
def rule_raise_message_types(ctx: Ctx, rule: str = "raise-message") -> None:
    """The argument of a raised error is built with string operations that exist: `text - text`, `text * text`,
    `text / x` raise TypeError while the error is being constructed, so the documented error never leaves."""
    prog = ctx.prog

    str_names: Set[str] = set()  # parameters of the function being read that are annotated `str`

    def is_text(e: ast.AST) -> bool:
        if isinstance(e, ast.Constant):
            return isinstance(e.value, str)
        if isinstance(e, ast.Name) and e.id in str_names:
            return True
        if isinstance(e, ast.JoinedStr):
            return True
        if isinstance(e, ast.Call):
            f = e.func
            if isinstance(f, ast.Attribute) and f.attr in ("format", "join", "strip", "lower", "upper"):
                return is_text(f.value) or f.attr in ("format", "join")
            if isinstance(f, ast.Name) and f.id in ("str", "repr"):
                return True
            if isinstance(f, ast.Name) and f.id in text_funcs:
                return True
        if isinstance(e, ast.BinOp) and isinstance(e.op, (ast.Add, ast.Mod)):
            return is_text(e.left)
        return False

    # functions of the package annotated `-> str`
    text_funcs = {fi_.name for fi_ in prog.funcs.values() if not isinstance(fi_.node, ast.Lambda) and fi_.kind == "function" and fi_.node.returns is not None and norm(fi_.node.returns) == "str"}
    # text arithmetic anywhere (a printer that subtracts two strings fails like a message that does)
    for fi in prog.all_functions():
        if isinstance(fi.node, ast.Lambda) or fi.module.base == "plots":
            continue
        str_names.clear()
        rebound = {t.id for st in ast.walk(fi.node) if isinstance(st, (ast.Assign, ast.AugAssign, ast.AnnAssign, ast.For)) for t in ast.walk(st.targets[0] if isinstance(st, ast.Assign) else st.target) if isinstance(t, ast.Name)}
        str_names.update(a_.arg for a_ in fi.node.args.args + fi.node.args.kwonlyargs if a_.annotation is not None and norm(a_.annotation) == "str" and a_.arg not in rebound)
        for x in ast.walk(fi.node):
            if isinstance(x, ast.BinOp) and isinstance(x.op, (ast.Sub, ast.Div, ast.FloorDiv, ast.Pow, ast.MatMult)) and (is_text(x.left) or is_text(x.right)):
                ctx.violation(rule, fi.key, "%s: text is combined with operations text has" % fi.key, "`%s` applies %s to text: TypeError when the line is reached" % (norm(x)[:80], type(x.op).__name__), where="%s:%d" % (fi.module.relpath, x.lineno))
    str_names.clear()
    n = 0
    for fi in prog.all_functions():
        if isinstance(fi.node, ast.Lambda) or fi.module.base == "plots":
            continue
        for node in ast.walk(fi.node):
            if not isinstance(node, ast.Raise) or node.exc is None:
                continue
            n += 1
            construct = "%s: the message of `raise %s` can be built" % (fi.key, exc_class_of(node.exc))
            bad = None
            for x in ast.walk(node.exc):
                if isinstance(x, ast.BinOp) and not isinstance(x.op, (ast.Add, ast.Mod)):
                    lt, rt = is_text(x.left), is_text(x.right)
                    if (lt and rt) or ((lt or rt) and not isinstance(x.op, ast.Mult)):
                        bad = x
                if isinstance(x, ast.BinOp) and isinstance(x.op, ast.Add):
                    for a_, b_ in ((x.left, x.right), (x.right, x.left)):
                        if is_text(a_) and (isinstance(b_, (ast.List, ast.ListComp, ast.Dict, ast.Tuple, ast.Set)) or (isinstance(b_, ast.Constant) and isinstance(b_.value, (int, float)) and not isinstance(b_.value, bool))):
                            bad = x
            if bad is not None:
                ctx.violation(rule, fi.key, construct, "`%s` is not an operation on text: building the message raises TypeError and the %s is never raised" % (norm(bad)[:80], exc_class_of(node.exc)), where="%s:%d" % (fi.module.relpath, node.lineno))
            else:
                ctx.ok(rule, fi.key, construct, nontrivial=False)
    ctx.floor("raise statements examined", n, 40)


# ------------------------------------------------------------------ calls match the signatures they reach (all properties)
def rule_call_arity(ctx: Ctx, rule: str = "call-arity") -> None:
    """Every call whose callee resolves to a function, method or class of the package supplies the parameters that have
    no default, names no keyword the callee lacks and passes no more positionals than it takes: otherwise Python raises
    TypeError at the call - an undocumented error, and only on the path that reaches the call."""
    prog = ctx.prog
    if _CA_CACHE.get("digest") == prog.digest:
        for kind, a, k in _CA_CACHE["verdicts"]:
            getattr(ctx, kind)(*a, **k)
        ctx.floor("resolved calls into the package", _CA_CACHE["n"], 150)
        return
    verdicts: List[Tuple[str, tuple, dict]] = []

    def sig_of(fn: ast.AST, drop_first: bool):
        a = fn.args
        pos = [x.arg for x in a.posonlyargs + a.args]
        ndef = len(a.defaults)
        required = pos[: len(pos) - ndef] if ndef else list(pos)
        if drop_first and pos:
            required = [r for r in required if r != pos[0]]
            pos = pos[1:]
        kwonly = [x.arg for x in a.kwonlyargs]
        kwreq = [x.arg for x, d in zip(a.kwonlyargs, a.kw_defaults) if d is None]
        return {"pos": pos, "required": required + kwreq, "names": set(pos) | set(kwonly), "vararg": a.vararg is not None, "kwarg": a.kwarg is not None, "posonly": {x.arg for x in a.posonlyargs}}

    def class_sig(cname: str):
        init = prog.resolve_method(cname, "__init__")
        if init is not None:
            return sig_of(init.node, True), init.key
        ci = prog.classes.get(cname)
        if ci is None:
            return None, None
        deco = [norm(d) for d in ci.node.decorator_list]
        is_record = any(d.split("(")[0].split(".")[-1] == "dataclass" for d in deco) or any(norm(b).split(".")[-1] == "NamedTuple" for b in ci.node.bases)
        if is_record and all(norm(b).split(".")[-1] in ("NamedTuple", "object") for b in ci.node.bases):
            names = [f for f, _d in ci.fields]
            req = [f for f, d in ci.fields if d is None]
            return {"pos": names, "required": req, "names": set(names), "vararg": False, "kwarg": False, "posonly": set()}, cname
        return None, None

    n = 0
    for fi in prog.all_functions():
        if fi.module.base == "plots":
            continue
        for node in ast.walk(fi.node):
            if not isinstance(node, ast.Call):
                continue
            if any(isinstance(a_, ast.Starred) for a_ in node.args) or any(k.arg is None for k in node.keywords):
                continue
            f = node.func
            sig = None
            target = None
            if isinstance(f, ast.Name):
                r = prog.resolve_name(fi.module, f.id)
                shadow = not isinstance(fi.node, ast.Lambda) and f.id in {x.arg for x in fi.node.args.args}
                if shadow:
                    r = None
                if r.__class__.__name__ == "FuncInfo" and r.kind == "function":
                    sig, target = sig_of(r.node, False), r.key
                elif r.__class__.__name__ == "ClassInfo":
                    sig, target = class_sig(r.name)
            elif isinstance(f, ast.Attribute) and isinstance(f.value, ast.Name):
                base = f.value.id
                r = prog.resolve_name(fi.module, base)
                if r.__class__.__name__ == "ClassInfo":
                    m = prog.resolve_method(r.name, f.attr)
                    if m is not None and not isinstance(m.node, ast.Lambda):
                        sig, target = sig_of(m.node, m.kind == "classmethod"), m.key
                elif fi.cls is not None and fi.params and base == fi.params[0] and fi.kind in ("method", "property"):
                    m = prog.resolve_method(fi.cls.name, f.attr)
                    # an attribute of the same name assigned on the instance would shadow the method: not in this package
                    if m is not None and m.kind in ("method", "static", "classmethod") and not isinstance(m.node, ast.Lambda):
                        sig, target = sig_of(m.node, m.kind in ("method", "classmethod")), m.key
                elif fi.cls is not None and fi.params and base == fi.params[0] and fi.kind == "classmethod":
                    m = prog.resolve_method(fi.cls.name, f.attr)
                    if m is not None and m.kind in ("static", "classmethod") and not isinstance(m.node, ast.Lambda):
                        sig, target = sig_of(m.node, m.kind == "classmethod"), m.key
            if sig is None:
                continue
            n += 1
            construct = "%s: the call `%s` fits %s" % (fi.key, norm(node)[:60], target)
            npos = len(node.args)
            kws = [k.arg for k in node.keywords]
            problem = None
            if npos > len(sig["pos"]) and not sig["vararg"]:
                problem = "%d positional arguments for %d parameters" % (npos, len(sig["pos"]))
            given = set(sig["pos"][:npos]) | set(kws)
            unknown = [k for k in kws if k not in sig["names"] or k in sig["posonly"]]
            if problem is None and unknown and not sig["kwarg"]:
                problem = "no parameter named %s" % unknown[0]
            dup = [k for k in kws if k in sig["pos"][:npos]]
            if problem is None and dup:
                problem = "%s is given twice" % dup[0]
            missing = [r_ for r_ in sig["required"] if r_ not in given]
            if problem is None and missing:
                problem = "the parameter %s has no default and is not supplied" % missing[0]
            if problem:
                verdicts.append(("violation", (rule, fi.key, construct, "%s: TypeError when this call is reached" % problem), {"where": "%s:%d" % (fi.module.relpath, node.lineno)}))
            else:
                verdicts.append(("ok", (rule, fi.key, construct), {"nontrivial": False}))
    for kind, a, k in verdicts:
        getattr(ctx, kind)(*a, **k)
    _CA_CACHE.clear()
    _CA_CACHE.update({"digest": prog.digest, "verdicts": verdicts, "n": n})
    ctx.floor("resolved calls into the package", n, 150)


_CA_CACHE: Dict[str, Any] = {}


# ------------------------------------------------------------------ the validator on every single-field fault (C14)
def rule_validator_faults(ctx: Ctx, rule: str = "validator-faults") -> None:
    """C14's own quantifier, evaluated on the validator's source by the kernel interpreter: a valid contract dictionary
    (both representations) passes validate_contract_dict, and every single-field deletion or change of kind - of the
    dictionary itself, of a top-level field, of a list item, of a clause field, of a coefficient - ends in
    ContractFormatError / ValueError.  Nothing of pacti is run: the interpreter walks the syntax tree over records
    for dictionaries, lists, strings and numbers."""
    from .termalg import NONE, DictV, ListV, Raised, TermAlg, num

    prog = ctx.prog
    exc = ExcTable(prog)
    fi = prog.func("serializer.validate_contract_dict")
    S = lambda s: ("str", s)  # noqa: E731

    def clause():
        return DictV({S("constant"): num(1), S("coefficients"): DictV({S("x"): num(2)})})

    def valid(machine: bool):
        body = (lambda: ListV([clause()])) if machine else (lambda: ListV([S("x <= 1")]))
        return DictV({S("input_vars"): ListV([S("x")]), S("output_vars"): ListV([S("y")]), S("assumptions"): body(), S("guarantees"): body()})

    OTHER = {"text": lambda: S("abc"), "number": lambda: num(3), "None": lambda: NONE, "list": lambda: ListV([]), "dict": lambda: DictV({})}

    def run(d, machine: bool) -> str:
        ta = TermAlg(prog)
        try:
            ta.call(fi, [d, S("c"), machine])
            return "accepted"
        except Raised as r:
            return "raise " + r.cls

    n = 0
    for machine in (True, False):
        rep = "machine" if machine else "string"
        construct = "validate_contract_dict (%s representation): a valid dictionary is accepted" % rep
        try:
            out = run(valid(machine), machine)
        except (AnalysisError, Undecidable_) as ex:
            ctx.extra["validator_faults_followed"] = False
            ctx.cannot_decide(rule, fi.key, construct, str(ex))
            continue
        (ctx.ok(rule, fi.key, construct) if out == "accepted" else ctx.violation(rule, fi.key, construct, "a valid dictionary gives %s" % out, where=fi.where))
        faults = []
        for kind in ("text", "list", "number", "None"):
            faults.append(("the dictionary itself is a %s" % kind, OTHER[kind]()))
        for fld in ("input_vars", "output_vars", "assumptions", "guarantees"):
            d = valid(machine)
            del d.d[S(fld)]
            faults.append(("field %s missing" % fld, d))
            for kind in ("text", "number", "None", "dict"):
                d = valid(machine)
                d.d[S(fld)] = OTHER[kind]()
                faults.append(("field %s is a %s" % (fld, kind), d))
            is_clauses = machine and fld in ("assumptions", "guarantees")
            for kind in (("text", "number", "None", "list") if is_clauses else ("number", "None", "list", "dict")):
                d = valid(machine)
                d.d[S(fld)] = ListV([OTHER[kind]()])
                faults.append(("an item of %s is a %s" % (fld, kind), d))
            if is_clauses:
                for ck in ("constant", "coefficients"):
                    d = valid(machine)
                    del d.d[S(fld)].items[0].d[S(ck)]
                    faults.append(("a clause of %s lacks %s" % (fld, ck), d))
                for kind in ("text", "None", "list", "dict"):
                    d = valid(machine)
                    d.d[S(fld)].items[0].d[S("constant")] = OTHER[kind]()
                    faults.append(("the constant of a clause of %s is a %s" % (fld, kind), d))
                for kind in ("text", "None", "list", "number"):
                    d = valid(machine)
                    d.d[S(fld)].items[0].d[S("coefficients")] = OTHER[kind]()
                    faults.append(("the coefficients of a clause of %s are a %s" % (fld, kind), d))
                for kind in ("text", "None", "list", "dict"):
                    d = valid(machine)
                    d.d[S(fld)].items[0].d[S("coefficients")].d[S("x")] = OTHER[kind]()
                    faults.append(("a coefficient in %s is a %s" % (fld, kind), d))
        accepted, wrong, undec = [], [], []
        for label, d in faults:
            n += 1
            try:
                out = run(d, machine)
            except (AnalysisError, Undecidable_) as ex:
                undec.append("%s: %s" % (label, ex))
                continue
            if out == "accepted":
                accepted.append(label)
            elif not documented(exc, out[6:]):
                wrong.append("%s: %s" % (label, out))
        ctx.extra.setdefault("validator_faults_followed", True)
        if undec:
            ctx.extra["validator_faults_followed"] = False
        construct = "validate_contract_dict (%s representation): each of the %d single-field faults is refused with a documented error" % (rep, len(faults))
        if accepted or wrong:
            ctx.violation(rule, fi.key, construct, "; ".join((["accepted: %s" % ", ".join(accepted[:4])] if accepted else []) + (["undocumented error: %s" % ", ".join(wrong[:3])] if wrong else [])), where=fi.where)
        elif undec:
            ctx.cannot_decide(rule, fi.key, construct, undec[0])
        else:
            ctx.ok(rule, fi.key, construct)
    ctx.floor("faulted dictionaries evaluated", n, 60)


try:
    from .termalg import Undecidable as Undecidable_
except ImportError:  # pragma: no cover
    class Undecidable_(Exception):
        pass


# ------------------------------------------------------------------ the file reader on every single fault of the document (C14)
def rule_reader_faults(ctx: Ctx, rule: str = "reader-faults") -> None:
    """C14 for files: read_contracts_from_file on a well-formed document returns one contract per entry, and on every
    single fault of the document's shape - the document is not a list, an entry is not a dictionary, an entry lacks
    type / name / data, the type is unknown or not text - it raises ContractFormatError or ValueError.  Decided by the
    kernel interpreter on the reader's source; the file system, the JSON parser and the three constructors are stubbed
    (the dictionary validator is interpreted, it is part of the package)."""
    from .termalg import NONE, DictV, ListV, Raised, TermAlg, num

    prog = ctx.prog
    exc = ExcTable(prog)
    fi = prog.func("fileio.read_contracts_from_file")
    S = lambda s: ("str", s)  # noqa: E731

    def strings_data():
        return DictV({S("input_vars"): ListV([S("x")]), S("output_vars"): ListV([S("y")]), S("assumptions"): ListV([S("x <= 1")]), S("guarantees"): ListV([S("y <= x")])})

    def machine_data():
        cl = lambda: DictV({S("constant"): num(1), S("coefficients"): DictV({S("x"): num(2)})})  # noqa: E731
        return DictV({S("input_vars"): ListV([S("x")]), S("output_vars"): ListV([S("y")]), S("assumptions"): ListV([cl()]), S("guarantees"): ListV([cl()])})

    def compound_data():
        return DictV({S("input_vars"): ListV([S("x")]), S("output_vars"): ListV([S("y")]), S("assumptions"): ListV([ListV([S("x <= 1")])]), S("guarantees"): ListV([ListV([S("y <= x")])])})

    from .rules_exc import written_tags as _wt

    tags = sorted(_wt(prog))
    data_for = {}
    for t in tags:
        data_for[t] = machine_data if t.endswith("_machine") else (compound_data if "Compound" in t else strings_data)

    def entry(tag: str):
        return DictV({S("type"): S(tag), S("name"): S("c"), S("data"): data_for[tag]()})

    built: List[str] = []

    def ctor(label):
        def f(ta, pos, kw):
            built.append(label)
            return ("str", "<contract %s>" % label)

        return f

    def run(doc) -> str:
        del built[:]
        ta = TermAlg(prog, stubs={"PolyhedralIoContract.from_dict": ctor("from_dict"), "PolyhedralIoContract.from_strings": ctor("from_strings"), "PolyhedralIoContractCompound.from_strings": ctor("compound.from_strings")})
        ta.ext_stubs.update({"os.path.isfile": lambda ta_, pos, kw: True, "json.load": lambda ta_, pos, kw: doc, "builtins.open": lambda ta_, pos, kw: ("str", "<file>")})
        try:
            r = ta.call(fi, [S("f.json")])
            return "returns %d" % len(built)
        except Raised as r_:
            return "raise " + r_.cls

    n = 0
    construct = "read_contracts_from_file: a well-formed document gives one contract per entry"
    try:
        out = run(ListV([entry(t) for t in tags]))
        (ctx.ok(rule, fi.key, construct) if out == "returns %d" % len(tags) else ctx.violation(rule, fi.key, construct, "a document with the %d kinds of entry %s" % (len(tags), out), where=fi.where))
    except (AnalysisError, Undecidable_) as ex:
        ctx.cannot_decide(rule, fi.key, construct, str(ex))
        return
    faults = []
    for kind, v in (("a dictionary", lambda: DictV({S("type"): S(tags[0])})), ("text", lambda: S("abc")), ("a number", lambda: num(3)), ("null", lambda: NONE)):
        faults.append(("the document is %s" % kind, v()))
    for kind, v in (("a list", lambda: ListV([])), ("text", lambda: S("type name data")), ("a number", lambda: num(3)), ("null", lambda: NONE)):
        faults.append(("an entry is %s" % kind, ListV([entry(tags[0]), v()])))
    for k in ("type", "name", "data"):
        e = entry(tags[0])
        del e.d[S(k)]
        faults.append(("an entry lacks %s" % k, ListV([e])))
    for kind, v in (("unknown", lambda: S("SomethingElse")), ("a number", lambda: num(1)), ("null", lambda: NONE), ("a list", lambda: ListV([S(tags[0])]))):
        e = entry(tags[0])
        e.d[S("type")] = v()
        faults.append(("the type of an entry is %s" % kind, ListV([e])))
    accepted, wrong, undec = [], [], []
    for label, doc in faults:
        n += 1
        try:
            out = run(doc)
        except (AnalysisError, Undecidable_) as ex:
            undec.append("%s: %s" % (label, ex))
            continue
        if out.startswith("returns"):
            accepted.append(label)
        elif not documented(exc, out[6:]):
            wrong.append("%s: %s" % (label, out))
    construct = "read_contracts_from_file: each of the %d single faults of the document's shape is refused with a documented error" % len(faults)
    if accepted or wrong:
        ctx.violation(rule, fi.key, construct, "; ".join((["accepted: %s" % ", ".join(accepted[:4])] if accepted else []) + (["undocumented error: %s" % ", ".join(wrong[:4])] if wrong else [])), where=fi.where)
    elif undec:
        ctx.cannot_decide(rule, fi.key, construct, undec[0])
    else:
        ctx.ok(rule, fi.key, construct)
    ctx.floor("faulted documents evaluated", n, 12)
