"""Generate /verif/MANIFEST.json from the property registry (python -m pv.manifest)."""
from __future__ import annotations

import json
import os

from .props import NOT_APPLICABLE, PROPS
from .report import VERIF

BASELINE = "cd /repo && /venv/bin/python -m pytest -ra -q -p no:cacheprovider --timeout=900 --continue-on-collection-errors"


def build() -> dict:
    checks = []
    for pid in sorted(PROPS):
        s = PROPS[pid]
        checks.append(
            {
                "property_id": pid,
                "quick_cmd": "/venv/bin/python -m pv check %s --tier quick" % pid,
                "thorough_cmd": "/venv/bin/python -m pv check %s --tier thorough" % pid,
                "evidence_file": "/verif/evidence/%s.json" % pid,
                "replay_cmd_template": "/venv/bin/python -m pv explain {path}",
                "engine": "pv",
                "level_claimed": {"category": s["level"], "text": s.get("level_text", s["explanation"]), "design_ref": s.get("design_ref", "DESIGN.md section 3")},
                "level_note": s.get("level_note", "; ".join(s.get("assumptions", [])) or "trusted base: python ast, pv engines, rule tables"),
                "technique": s.get("technique", "static analysis: AST abstract interpretation / rule checks"),
            }
        )
    return {
        "version": 1,
        "setup_cmd": "/venv/bin/python -m pv list",
        "hooks": {
            "guard": "PACTI_VERIF",
            "enable": "no hooks: the checks only parse /repo/src/pacti with the ast module; nothing is instrumented or built",
            "baseline_off_cmd": BASELINE,
            "source_commits": [],
            "add_only": True,
        },
        "engines": [
            {
                "name": "pv",
                "path": "/verif/pv",
                "serves_properties": sorted(PROPS),
                "kind_free_text": "static analysis over the ast of /repo/src/pacti: abstract interpreter with provenance terms + Horn-closure judge, "
                "membership truth tables, statement CFG, effect/exception/def-use analyses, kernel normaliser, rule tables",
            }
        ],
        "checks": checks,
        "notes": "Every check parses the current working tree of /repo/src/pacti on each run (nothing in /repo is imported or executed). "
        "exit 0 = all rule instances hold (KNOWN-FINDING lines for listed findings), exit 1 + VIOLATION line = a rule instance is violated at a "
        "named construct, exit 2 + ANALYSIS-ERROR = the analysis cannot decide (anchor vanished / construct outside the fragment).",
        "not_applicable": [{"property_id": k, "reason": v} for k, v in sorted(NOT_APPLICABLE.items()) if k not in PROPS],
    }


if __name__ == "__main__":
    m = build()
    with open(os.path.join(VERIF, "MANIFEST.json"), "w") as fh:
        json.dump(m, fh, indent=1)
    print("MANIFEST.json written: %d checks, %d not applicable" % (len(m["checks"]), len(m["not_applicable"])))
