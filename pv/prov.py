"""Provenance terms for constraint lists and the Horn-closure entailment judge.

A constraint-list value in the algebra layer is abstracted to a node of a
hash-consed term graph:

    leaf(name) | union(a,b) | inter(a,b) | diff(a,b) | copy(a)
    refine(E, ctx, S, simp) | relax(E, ctx, S, simp) | simp(E, ctx|None)
    with_vars(E, S) | rename(E, s, t) | top()

Each node denotes an uninterpreted predicate over behaviours.  The documented
primitive specs (docstrings of the abstract TermList) give Horn clauses
"if these nodes hold at a behaviour then that node holds"; entailment queries
are decided by forward closure over the finite node set - no search, no
arithmetic, no solver.
"""
from __future__ import annotations

from typing import Dict, FrozenSet, Iterable, List, Optional, Set, Tuple


class Prov:
    def __init__(self) -> None:
        self.nodes: List[Tuple] = []  # (op, args...)
        self.index: Dict[Tuple, int] = {}
        self.rules: List[Tuple[FrozenSet[int], int, str]] = []  # premises -> conclusion, why
        self._ruleset: Set[Tuple[FrozenSet[int], int]] = set()
        self.top = self.mk("top")
        self.add_rule([], self.top, "the empty list is true")

    # -- construction ------------------------------------------------------
    def mk(self, op: str, *args) -> int:
        key = (op,) + tuple(args)
        if key in self.index:
            return self.index[key]
        nid = len(self.nodes)
        self.nodes.append(key)
        self.index[key] = nid
        self._axioms(nid, op, args)
        return nid

    def add_rule(self, prem: Iterable[int], concl: int, why: str) -> None:
        p = frozenset(prem)
        if concl in p:
            return
        if (p, concl) in self._ruleset:
            return
        self._ruleset.add((p, concl))
        self.rules.append((p, concl, why))

    def _axioms(self, n: int, op: str, a: Tuple) -> None:
        if op == "union":
            self.add_rule([n], a[0], "E1|E2 |- E1")
            self.add_rule([n], a[1], "E1|E2 |- E2")
            self.add_rule([a[0], a[1]], n, "E1, E2 |- E1|E2")
        elif op == "inter":
            # syntactic intersection of term lists: only terms in both survive -> weaker than either
            self.add_rule([a[0]], n, "E1 |- E1&E2 (sub-list)")
            self.add_rule([a[1]], n, "E2 |- E1&E2 (sub-list)")
        elif op == "diff":
            self.add_rule([a[0]], n, "E1 |- E1-E2 (sub-list)")
            self.add_rule([n, a[1]], a[0], "E1-E2, E2 |- E1")
        elif op == "copy":
            self.add_rule([n], a[0], "copy")
            self.add_rule([a[0]], n, "copy")
        elif op == "refine":
            # R = refine(E; ctx; S):  ctx, R |- E
            self.add_rule([a[1], n], a[0], "refine spec: ctx, R |- E")
        elif op == "relax":
            # R = relax(E; ctx; S):  ctx, E |- R
            self.add_rule([a[1], a[0]], n, "relax spec: ctx, E |- R")
        elif op == "simp":
            e, ctx = a[0], a[1]
            self.add_rule([e], n, "simplify returns a sub-list: E |- R")
            if ctx is None:
                self.add_rule([n], e, "simplify spec (no context): R |- E")
            else:
                self.add_rule([ctx, n], e, "simplify spec: ctx, R |- E")
        elif op == "with_vars":
            self.add_rule([a[0]], n, "sub-list: E |- terms_with_vars(E)")
        elif op == "top":
            pass

    # -- judge -------------------------------------------------------------
    def closure(self, hyps: Iterable[int], extra_rules: Iterable[Tuple[Iterable[int], int, str]] = ()) -> Dict[int, str]:
        """Forward closure; returns {node: justification}."""
        have: Dict[int, str] = {}
        for h in hyps:
            have[h] = "hypothesis"
        rules = list(self.rules) + [(frozenset(p), c, w) for (p, c, w) in extra_rules]
        changed = True
        while changed:
            changed = False
            for (p, c, w) in rules:
                if c not in have and all(x in have for x in p):
                    have[c] = "%s from %s" % (w, sorted(p))
                    changed = True
        return have

    def entails(self, hyps: Iterable[int], goal: int, extra_rules=()) -> bool:
        return goal in self.closure(hyps, extra_rules)

    # -- display -----------------------------------------------------------
    def show(self, n: Optional[int], depth: int = 6) -> str:
        if n is None:
            return "-"
        op = self.nodes[n]
        if op[0] == "leaf":
            return op[1]
        if op[0] == "top":
            return "TRUE"
        if depth <= 0:
            return "#%d" % n
        if op[0] in ("union", "inter", "diff"):
            sym = {"union": "|", "inter": "&", "diff": "-"}[op[0]]
            return "(%s %s %s)" % (self.show(op[1], depth - 1), sym, self.show(op[2], depth - 1))
        if op[0] == "copy":
            return "copy(%s)" % self.show(op[1], depth - 1)
        if op[0] in ("refine", "relax"):
            return "%s(%s; ctx=%s; elim=%s; simplify=%s)" % (
                op[0],
                self.show(op[1], depth - 1),
                self.show(op[2], depth - 1),
                op[3],
                op[4],
            )
        if op[0] == "simp":
            return "simp(%s; ctx=%s)" % (self.show(op[1], depth - 1), self.show(op[2], depth - 1))
        if op[0] == "with_vars":
            return "terms_with_vars(%s; %s)" % (self.show(op[1], depth - 1), op[2])
        return "%s%r" % (op[0], op[1:])
