#!/venv/bin/python
"""usage: patch_check.py <patch.diff> [props...]  - applies the patch to /repo, runs the checks in-process, reverts."""
import contextlib, io, subprocess, sys, os
sys.path.insert(0, "/verif")
patch = os.path.abspath(sys.argv[1])
props = sys.argv[2:]
r = subprocess.run(["git", "-C", "/repo", "apply", patch])
if r.returncode != 0:
    print("PATCH DOES NOT APPLY"); sys.exit(9)
try:
    from pv.props import PROPS
    from pv.runner import run_check
    bad = 0
    for p in (props or sorted(PROPS)):
        buf = io.StringIO()
        with contextlib.redirect_stdout(buf):
            rc = run_check(p, "quick", 0, write=False)
        if rc != 0:
            bad += 1
            print("== %s exit %d" % (p, rc))
            for ln in buf.getvalue().splitlines():
                if ln.startswith(("VIOLATION", "ANALYSIS-ERROR")) or ln.startswith("  "):
                    print("   " + ln[:330])
    print("patch %s: %d check(s) not silent" % (os.path.basename(patch), bad))
finally:
    subprocess.run(["git", "-C", "/repo", "checkout", "--", "."])
