#!/bin/bash
# usage: round.sh <worktree> <k> <seed-id>   - confirm a round-3 style seed and run ALL checks on it
set -u
WT=$1; K=$2; ID=$3
OUT=/verif/seeded/$ID
mkdir -p $OUT
cp $WT/patch_$K.diff $OUT/patch.diff
cp $WT/demo_$K.py $OUT/demo.py
cd $WT
git checkout -q -- src
PYTHONPATH=$WT/src timeout 600 /venv/bin/python demo_$K.py >/dev/null 2>&1; echo "demo without change exit=$?"
git apply patch_$K.diff || { echo "PATCH DOES NOT APPLY IN WORKTREE"; exit 9; }
PYTHONPATH=$WT/src timeout 1500 /venv/bin/python -m pytest -q -p no:cacheprovider 2>&1 | grep -E "passed|failed|error" | tail -1
PYTHONPATH=$WT/src timeout 600 /venv/bin/python demo_$K.py >/dev/null 2>&1; echo "demo with change exit=$?"
git checkout -q -- src
cd /verif
/verif/tools/patch_check.py $OUT/patch.diff 2>&1 | grep -E "^== |construct:|not silent|ANALYSIS" | cut -c1-220
