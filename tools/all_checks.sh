#!/bin/bash
# usage: all_checks.sh   - every registered check, both tiers, in parallel; prints only the ones that do not exit 0
cd /verif
out=$(mktemp)
for t in quick thorough; do
  for p in C01 C02 C03 C04 C05 C06 C07 C08 C09 C10 C11 C12 C13 C14 C15 C16 C17 C19; do
    ( /venv/bin/python -m pv check $p --tier $t >/dev/null 2>&1; echo "$t $p exit=$?" >> $out ) &
  done
  wait
done 2>/dev/null
grep -v "exit=0" $out; echo "$(grep -c 'exit=0' $out) of $(wc -l < $out) runs exit 0"; rm -f $out
