#!/venv/bin/python
"""usage: seed_meta.py <seed-id> <property> <caught-by comma list or NONE> <needs...>"""
import json, sys, os
sid, prop, caught = sys.argv[1], sys.argv[2], sys.argv[3]
needs = " ".join(sys.argv[4:])
d = "/verif/seeded/%s" % sid
meta = {
    "id": sid,
    "breaks_property": prop,
    "needs_to_manifest": needs,
    "origin": "written by an independent sub-agent that saw only the property text and a scratch worktree of /repo (nothing from /verif)",
    "confirmed": {
        "suite_with_change": "PYTHONPATH=<worktree>/src /venv/bin/python -m pytest -q -p no:cacheprovider -> 144 passed, 2 skipped",
        "demo_with_change": "exit 1",
        "demo_without_change": "exit 0",
        "ran": "tools/seed_check.sh (applies patch.diff to /repo, runs the checks, reverts with git checkout)",
    },
    "caught_by": [] if caught == "NONE" else caught.split(","),
}
json.dump(meta, open(os.path.join(d, "meta.json"), "w"), indent=1)
print("wrote", d)
