#!/bin/bash
# usage: seed_check.sh <worktree> <seed-id> <props...>
# 1. confirms in the worktree: suite passes with the change, demo fails with it and passes without
# 2. applies the patch to /repo, runs the named checks, reverts /repo
set -u
WT=$1; ID=$2; shift 2
OUT=/verif/seeded/$ID
mkdir -p $OUT
cp $WT/patch.diff $OUT/patch.diff
cp $WT/demo.py $OUT/demo.py
cd $WT
echo "== suite with change"; PYTHONPATH=$WT/src timeout 1500 /venv/bin/python -m pytest -q -p no:cacheprovider 2>&1 | grep -E "passed|failed|error" | tail -1
echo "== demo with change"; PYTHONPATH=$WT/src timeout 600 /venv/bin/python demo.py >/dev/null 2>&1; echo "exit=$?"
git apply -R patch.diff
echo "== demo without change"; PYTHONPATH=$WT/src timeout 600 /venv/bin/python demo.py >/dev/null 2>&1; echo "exit=$?"
git apply patch.diff
cd /verif
git -C /repo apply $OUT/patch.diff || { echo "PATCH DOES NOT APPLY"; exit 9; }
for p in "$@"; do
  /venv/bin/python - <<PY
from pv.runner import run_check
import io, contextlib
buf = io.StringIO()
with contextlib.redirect_stdout(buf):
    rc = run_check("$p", "quick", 0, write=False)
out = buf.getvalue()
print("== check $p exit", rc)
for ln in out.splitlines():
    if ln.startswith(("VIOLATION", "  rule=", "  construct", "ANALYSIS-ERROR")) or (ln.startswith("  ") and len(ln) < 400):
        print(ln[:400])
PY
done
git -C /repo checkout -- .
git -C /repo status --short | head -3
