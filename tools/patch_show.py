#!/venv/bin/python
"""usage: patch_show.py <patch.diff> <prop>...  - run the named checks on a patch in memory and print the violations / errors"""
import os, sys
sys.path.insert(0, "/verif")
from pv.selftest import _run_one
patch = sys.argv[1]
for prop in sys.argv[2:]:
    r = _run_one(({"id": patch, "patch": os.path.relpath(os.path.abspath(patch), "/verif")}, prop))
    print("==", prop, r["status"], r.get("detail", ""))
    for ln in r.get("out", "").splitlines():
        if ln.startswith(("VIOLATION", "ANALYSIS-ERROR", "UNDECIDED")) or ln.startswith("  "):
            print("   " + ln[:400])
