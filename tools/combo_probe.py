#!/venv/bin/python
"""usage: combo_probe.py <spec.json>  - spec: list of variants ({"id","patch","then":[{"file","find","replace"}]});
every check on every variant, in memory, 16 jobs."""
import json, multiprocessing as mp, re, sys
sys.path.insert(0, "/verif")


def one(args):
    v, prop = args
    from pv.selftest import _run_one
    r = _run_one((v, prop))
    rules = sorted(set(re.findall(r"rule=([\w-]+)", r.get("out", "")))) if r["status"] == "violation" else []
    return v["id"], prop, r["status"], rules


if __name__ == "__main__":
    from pv.props import PROPS
    vs = json.load(open(sys.argv[1]))
    work = [(v, q) for v in vs for q in sorted(PROPS)]
    res = {}
    with mp.Pool(16) as pool:
        for vid, prop, st, rules in pool.imap_unordered(one, work):
            res.setdefault(vid, {})[prop] = (st, rules)
    for v in vs:
        r = res[v["id"]]
        rep = ["%s:%s" % (p, "+".join(x[1])) for p, x in sorted(r.items()) if x[0] == "violation"]
        und = [(p, x[0]) for p, x in sorted(r.items()) if x[0] not in ("violation", "silent")]
        print("%s\n   reported by %s%s" % (v["id"], ", ".join(rep) or "NOBODY", ("\n   other: %s" % und) if und else ""))
