#!/bin/bash
# usage: confirm_seed.sh <worktree> <k> <seed-id>  - confirm a seed inside its own worktree (suite passes with it, demo fails
# with it and passes without it) and copy it to /verif/seeded/<seed-id>; never touches /repo
set -u
WT=$1; K=$2; ID=$3
OUT=/verif/seeded/$ID
mkdir -p $OUT
cp $WT/patch_$K.diff $OUT/patch.diff
cp $WT/demo_$K.py $OUT/demo.py
cd $WT
git checkout -q -- src; git clean -qfd src
PYTHONPATH=$WT/src timeout 600 /venv/bin/python demo_$K.py >/dev/null 2>&1; a=$?
git apply patch_$K.diff || { echo "$ID PATCH DOES NOT APPLY IN WORKTREE"; exit 9; }
s=$(PYTHONPATH=$WT/src timeout 1500 /venv/bin/python -m pytest -q -p no:cacheprovider 2>&1 | grep -E "passed|failed|error" | tail -1)
PYTHONPATH=$WT/src timeout 600 /venv/bin/python demo_$K.py >/dev/null 2>&1; b=$?
git checkout -q -- src; git clean -qfd src
echo "$ID: demo clean exit=$a; with change exit=$b; suite: $s"
