#!/venv/bin/python
"""usage: mutant_suite.py <mutants.jsonl> <out.jsonl> [ids-file]  - run the repository's test suite on each mutant in a scratch
copy under /tmp/mut/wk_<n> (never /repo); records pass/fail.  Development tool, not a registered check."""
import json, multiprocessing as mp, os, shutil, subprocess, sys, time

BASE = "/tmp/mut"
JOBS = int(os.environ.get("JOBS", "10"))


def setup(k):
    d = "%s/wk_%d" % (BASE, k)
    if not os.path.isdir(d):
        os.makedirs(d)
        subprocess.check_call("cd /repo && git archive HEAD | tar -x -C %s" % d, shell=True)
    return d


def one(m):
    k = mp.current_process()._identity[0] % 1000
    d = setup(k)
    path = os.path.join(d, m["file"])
    orig = subprocess.check_output(["git", "-C", "/repo", "show", "HEAD:" + m["file"]]).decode()
    open(path, "w").write(m["text"])
    t = time.time()
    try:
        r = subprocess.run(["/venv/bin/python", "-m", "pytest", "-q", "-x", "-p", "no:cacheprovider", "--timeout=300"], cwd=d, env=dict(os.environ, PYTHONPATH=d + "/src"), capture_output=True, text=True, timeout=900)
        tail = r.stdout.strip().splitlines()[-1] if r.stdout.strip() else ""
        ok = r.returncode == 0
    except subprocess.TimeoutExpired:
        ok, tail = False, "timeout"
    finally:
        open(path, "w").write(orig)
    return {"id": m["id"], "suite_pass": ok, "tail": tail[-120:], "wall": round(time.time() - t, 1)}


if __name__ == "__main__":
    inp, out = sys.argv[1], sys.argv[2]
    only = set(open(sys.argv[3]).read().split()) if len(sys.argv) > 3 else None
    done = set()
    if os.path.exists(out):
        done = {json.loads(l)["id"] for l in open(out)}
    ms = [json.loads(l) for l in open(inp)]
    ms = [m for m in ms if m["id"] not in done and (only is None or m["id"] in only)]
    print("to run:", len(ms), flush=True)
    with mp.get_context("fork").Pool(JOBS) as pool, open(out, "a") as fh:
        for k, r in enumerate(pool.imap_unordered(one, ms)):
            fh.write(json.dumps(r) + "\n"); fh.flush()
            if k % 100 == 0:
                print(k, r, flush=True)
    for k in range(1, 2000):
        d = "%s/wk_%d" % (BASE, k)
        if os.path.isdir(d):
            shutil.rmtree(d)
