#!/bin/bash
# usage: seed_check2.sh <worktree> <k> <seed-id> <props...>   (round-3 layout: patch_k.diff / demo_k.py, clean tree)
set -u
WT=$1; K=$2; ID=$3; shift 3
OUT=/verif/seeded/$ID
mkdir -p $OUT
cp $WT/patch_$K.diff $OUT/patch.diff
cp $WT/demo_$K.py $OUT/demo.py
cd $WT
git checkout -q -- src
echo "== demo without change"; PYTHONPATH=$WT/src timeout 600 /venv/bin/python demo_$K.py >/dev/null 2>&1; echo "exit=$?"
git apply patch_$K.diff || { echo "PATCH DOES NOT APPLY IN WORKTREE"; exit 9; }
echo "== suite with change"; PYTHONPATH=$WT/src timeout 1500 /venv/bin/python -m pytest -q -p no:cacheprovider 2>&1 | grep -E "passed|failed|error" | tail -1
echo "== demo with change"; PYTHONPATH=$WT/src timeout 600 /venv/bin/python demo_$K.py >/dev/null 2>&1; echo "exit=$?"
git checkout -q -- src
cd /verif
/verif/tools/patch_check.py $OUT/patch.diff "$@"
