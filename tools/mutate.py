#!/venv/bin/python
"""Mechanical mutation sweep (development tool, not a registered check).

usage: mutate.py gen <out.jsonl>            - enumerate mutants of /repo/src/pacti (one per line: file, function, op, line, text of the mutated module)
       mutate.py run <in.jsonl> <out.jsonl> - run all 18 quick checks on every mutant IN MEMORY (16 jobs); records which report
Mutants that no check reports are then run through the repository's own test suite by tools/mutant_suite.sh; the ones
that survive both are either equivalent or blind spots, to be triaged by hand.
"""
import ast, copy, json, multiprocessing as mp, os, re, sys, time

sys.path.insert(0, "/verif")
REPO = "/repo"
SKIP_FILES = ("plots.py",)

from pv.mutation import CMP, BIN, functions, is_doc, is_log, sites, apply, _replace  # noqa: E402,F401


def gen(out):
    n = 0
    with open(out, "w") as fh:
        for dirpath, _d, files in os.walk(os.path.join(REPO, "src/pacti")):
            for f in sorted(files):
                if not f.endswith(".py") or f in SKIP_FILES:
                    continue
                path = os.path.join(dirpath, f)
                rel = os.path.relpath(path, REPO)
                src = open(path, encoding="utf-8").read()
                tree = ast.parse(src)
                base = ast.unparse(tree)
                fns = functions(tree)
                for qual, fn in fns:
                    # only sites that belong to this function itself, not to nested functions (they are listed separately)
                    inner = {id(x) for q2, f2 in fns if f2 is not fn and q2.startswith(qual + ".") for x in ast.walk(f2)}
                    nodes = list(ast.walk(fn))
                    for op, idx, ln in sites(fn):
                        if id(nodes[idx]) in inner:
                            continue
                        t2 = copy.deepcopy(tree)
                        fn2 = dict(functions(t2))[qual] if len({q for q, _ in fns if q == qual}) == 1 else None
                        if fn2 is None:
                            cands = [f3 for q3, f3 in functions(t2) if q3 == qual and f3.lineno == fn.lineno]
                            fn2 = cands[0]
                        try:
                            apply(fn2, op, idx)
                            ast.fix_missing_locations(t2)
                            text = ast.unparse(t2) + "\n"
                            compile(text, rel, "exec")
                        except Exception as e:
                            continue
                        if text.strip() == base.strip():
                            continue
                        fh.write(json.dumps({"id": "%s::%s::%s@%d#%d" % (rel.split("src/pacti/")[1], qual, op, ln, idx), "file": rel, "function": qual, "op": op, "line": ln, "text": text}) + "\n")
                        n += 1
    print("mutants:", n)


def _one(m):
    from pv.props import PROPS
    from pv.runner import run_check
    import io, contextlib

    rep, und, rules = [], [], {}
    t = time.time()
    for p in sorted(PROPS):
        buf = io.StringIO()
        try:
            with contextlib.redirect_stdout(buf):
                rc = run_check(p, "quick", 0, write=False, overrides={m["file"]: m["text"]}, quiet=False)
        except Exception as e:
            rc = 99
        if rc == 1:
            rep.append(p)
            rules[p] = sorted(set(re.findall(r"rule=([\w-]+)", buf.getvalue())))
        elif rc != 0:
            und.append(p)
    return {"id": m["id"], "file": m["file"], "function": m["function"], "op": m["op"], "line": m["line"], "reported": rep, "undecided": und, "rules": rules, "wall": round(time.time() - t, 1)}


def run(inp, out):
    done = set()
    if os.path.exists(out):
        for l in open(out):
            done.add(json.loads(l)["id"])
    ms = [json.loads(l) for l in open(inp)]
    ms = [m for m in ms if m["id"] not in done]
    print("to run:", len(ms))
    jobs = int(os.environ.get("JOBS", "12"))
    with mp.get_context("fork").Pool(jobs, maxtasksperchild=6) as pool, open(out, "a") as fh:
        for k, r in enumerate(pool.imap_unordered(_one, ms)):
            fh.write(json.dumps(r) + "\n")
            fh.flush()
            if k % 50 == 0:
                print(k, r["id"], r["reported"], r["undecided"], r["wall"], flush=True)


if __name__ == "__main__":
    if sys.argv[1] == "gen2":
        # second sweep: only the role-swap operators, only the algebra layer
        import pv.mutation as _m

        _m.SEMANTIC_OPS = True
        _orig_sites = _m.sites
        sites = lambda fn: [x for x in _orig_sites(fn) if x[0].split(":")[0] in ("name-swap", "attr-swap", "call-swap")]  # noqa: E731
        SKIP_FILES = ("plots.py", "polyhedra.py", "serializer.py", "grammar.py", "data.py", "errors.py", "fileio.py")
        gen(sys.argv[2])
    elif sys.argv[1] == "gen":
        gen(sys.argv[2])
    else:
        run(sys.argv[2], sys.argv[3])
