#!/venv/bin/python
"""usage: patch_probe.py <patch.diff>...  - every check on every patch, applied in memory (never touches /repo), 16 jobs.
Prints one line per patch: which properties report (rule names), which cannot decide."""
import multiprocessing as mp, os, re, sys
sys.path.insert(0, "/verif")


def one(args):
    patch, prop = args
    from pv.selftest import _run_one
    r = _run_one(({"id": patch, "patch": os.path.relpath(os.path.abspath(patch), "/verif")}, prop))
    rules = sorted(set(re.findall(r"rule=([\w-]+)", r.get("out", "")))) if r["status"] == "violation" else []
    return patch, prop, r["status"], rules


if __name__ == "__main__":
    from pv.props import PROPS
    work = [(p, q) for p in sys.argv[1:] for q in sorted(PROPS)]
    res = {}
    with mp.Pool(16) as pool:
        for patch, prop, st, rules in pool.imap_unordered(one, work):
            res.setdefault(patch, {})[prop] = (st, rules)
    for patch in sys.argv[1:]:
        r = res[patch]
        rep = ["%s:%s" % (p, "+".join(x[1])) for p, x in sorted(r.items()) if x[0] == "violation"]
        und = [p for p, x in sorted(r.items()) if x[0] not in ("violation", "silent")]
        print("%s\n   reported by %s%s" % (patch, ", ".join(rep) or "NOBODY", ("\n   other: %s" % [(p, r[p][0]) for p in und]) if und else ""))
