#!/venv/bin/python
"""Record, for every reviewed assert, its definition-expanded form (run deliberately on the reference tree)."""
import ast, json, os, sys
sys.path.insert(0, os.path.dirname(os.path.dirname(os.path.abspath(__file__))))
from pv.loader import Program
from pv import rules_exc as RE

prog = Program.load() if hasattr(Program, "load") else Program()
tab = json.load(open(RE.ASSERT_TABLE))
n = 0
seen = {}
for fi in prog.all_functions():
    if isinstance(fi.node, ast.Lambda):
        continue
    for node in ast.walk(fi.node):
        if isinstance(node, ast.Assert):
            k = RE.assert_key(fi, node)
            if k in tab["asserts"]:
                cur = tab["asserts"][k].get("expanded_forms", []) if seen.get(k) else []
                seen[k] = True
                ex = RE.expanded_test(fi, node)
                if ex not in cur:
                    cur.append(ex)
                tab["asserts"][k]["expanded_forms"] = cur
                tab["asserts"][k].pop("expanded", None)
                n += 1
json.dump(tab, open(RE.ASSERT_TABLE, "w"), indent=1, sort_keys=True)
print("expanded", n, "of", len(tab["asserts"]))
