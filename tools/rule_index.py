#!/venv/bin/python
"""Prints, per property, the rules that ran on the current tree with their instance counts (for DESIGN.md section 11)."""
import sys, io, contextlib, collections
sys.path.insert(0, "/verif")
from pv.loader import Program
from pv.report import Ctx
from pv.props import PROPS

prog = Program.load()
for pid in sorted(PROPS):
    ctx = Ctx(prog, pid, quiet=True)
    with contextlib.redirect_stdout(io.StringIO()):
        PROPS[pid]["fn"](ctx)
    c = collections.Counter(i["rule"] for i in ctx.instances)
    f = collections.defaultdict(set)
    for i in ctx.instances:
        f[i["rule"]].add(i["function"])
    print("| %s | %d | %s |" % (pid, len(ctx.instances), "; ".join("`%s` %d (%d fn)" % (r, n, len(f[r])) for r, n in sorted(c.items()))))
