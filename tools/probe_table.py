#!/venv/bin/python
"""usage: probe_table.py <patch>...  - like patch_probe.py, one line per patch that is not silent everywhere"""
import subprocess, sys, re
out = subprocess.run(["/venv/bin/python", "/verif/tools/patch_probe.py"] + sys.argv[1:], capture_output=True, text=True).stdout
cur = None
for line in out.splitlines():
    if not line.startswith(" "):
        cur = line.strip()
    elif "reported by" in line and "NOBODY" not in line:
        print(cur, "|", line.strip())
    elif "other:" in line:
        print(cur, "|", line.strip())
