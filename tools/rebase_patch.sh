#!/bin/bash
# usage: rebase_patch.sh <patch file>   - re-creates the patch on top of /repo main (3-way), rewriting the file in place
set -u
P=$(readlink -f $1)
WT=/tmp/wrebase_$$
git -C /repo worktree add -q --detach $WT main || exit 9
cd $WT
base=""
for c in $(git -C /repo log --format=%h -25 main); do
  git checkout -q --detach $c; git checkout -q -- .
  if git apply --check $P 2>/dev/null; then base=$c; break; fi
done
if [ -z "$base" ]; then echo "NO BASE for $P"; cd /; git -C /repo worktree remove --force $WT; exit 8; fi
git apply $P && git -c user.name=x -c user.email=x@x commit -qam tmp
if [ "$base" = "$(git -C /repo log --format=%h -1 main)" ]; then echo "already applies on main: $P"; cd /; git -C /repo worktree remove --force $WT; exit 0; fi
if git -c user.name=x -c user.email=x@x rebase -q --onto main $base HEAD >/dev/null 2>&1; then
  git diff main HEAD > $P; echo "rebased $P from $base ($(wc -l < $P) lines)"; rc=0
else
  echo "CONFLICT $P (base $base)"; git diff --diff-filter=U | head -80; git rebase --abort; rc=7
fi
cd /; git -C /repo worktree remove --force $WT; exit $rc
